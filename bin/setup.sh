#!/bin/bash
# Build every flavour the checks need, from files on disk only.
cd "$(dirname "$0")/.." || exit 2
set -e
bin/build.sh asan
bin/build.sh tsan
