#!/bin/bash
# Scratch tree for confirming seeded changes against the repo's own test suite
# (guard off, same options as /repo/_build).  usage: testtree.sh setup | run <patch>
WT=/var/tmp/test-wt
BD=/var/tmp/test-build
case $1 in
 setup)
  [ -d $WT ] || git -C /repo worktree add -q $WT HEAD
  git -C $WT checkout -q --detach $(git -C /repo rev-parse HEAD)
  cmake -G Ninja -S $WT -B $BD -DCMAKE_BUILD_TYPE=RelWithDebInfo -DCMAKE_CXX_FLAGS=-Wno-error \
    -DCELERITAS_BUILD_TESTS=ON -DCELERITAS_USE_MPI=ON -DCELERITAS_USE_OpenMP=ON -DCELERITAS_USE_PNG=ON \
    -DCELERITAS_USE_Python=ON -DCELERITAS_USE_Geant4=OFF -DCELERITAS_USE_ROOT=OFF -DCELERITAS_USE_VecGeom=OFF \
    -DCELERITAS_USE_CUDA=OFF -DCELERITAS_USE_HIP=OFF -DCELERITAS_USE_HepMC3=OFF \
    -DGTest_DIR=/root/miniconda/lib/cmake/GTest -Dnlohmann_json_DIR=/root/miniconda/share/cmake/nlohmann_json > $BD.configure.log 2>&1
  cmake --build $BD -j ${JOBS:-8} -- -k 0 > $BD.build.log 2>&1
  ctest --test-dir $BD -j8 --timeout 900 > $BD.ctest.log 2>&1
  tail -5 $BD.ctest.log ;;
 run)
  PATCH=$(readlink -f "$2")
  git -C $WT checkout -q --detach $(git -C /repo rev-parse HEAD); git -C $WT checkout -q -- .
  git -C $WT apply "$PATCH" || { echo PATCH-FAILED; exit 3; }
  cmake --build $BD -j ${JOBS:-12} -- -k 0 > $BD.build.log 2>&1
  grep -c "FAILED:" $BD.build.log
  ctest --test-dir $BD -j8 --timeout 900 > $BD.ctest.log 2>&1
  grep -E "tests passed|tests failed" $BD.ctest.log; grep -E "^\s+[0-9]+ - .*\((Failed|Timeout|SEGFAULT|Subprocess)" $BD.ctest.log | head -20
  git -C $WT checkout -q -- . ;;
esac
