#!/bin/bash
# Configure (once) and incrementally build the harness + celeritas libraries
# from /repo's current working tree.   usage: build.sh <asan|tsan|plain> [target]
set -e
FLAVOR=${1:-asan}
TARGET=${2:-vsim}
VERIF=$(cd "$(dirname "$0")/.." && pwd)
REPO=${VERIF_REPO:-/repo}
BDIR=${VERIF_BUILD_ROOT:-$VERIF/.build}/$FLAVOR
COMMON="-DCELERITAS_VERIF_SIM -g1 -fno-omit-frame-pointer -Wno-error"
case $FLAVOR in
  asan)  FLAGS="$COMMON -fsanitize=address,undefined -fno-sanitize-recover=undefined" ;;
  tsan)  FLAGS="$COMMON -fsanitize=thread" ;;
  plain) FLAGS="$COMMON" ;;
  *) echo "unknown flavor $FLAVOR" >&2; exit 2 ;;
esac
if [ ! -f "$BDIR/build.ninja" ]; then
  mkdir -p "$BDIR"
  cmake -G Ninja -S "$VERIF/cmake" -B "$BDIR" \
    -DREPO_DIR="$REPO" -DVERIF_FLAVOR=$FLAVOR \
    -DCMAKE_BUILD_TYPE=Release \
    -DCMAKE_CXX_FLAGS="$FLAGS" -DCMAKE_CXX_FLAGS_RELEASE="-O2" \
    -DCMAKE_EXE_LINKER_FLAGS="$( [ $FLAVOR = asan ] && echo -fsanitize=address,undefined; [ $FLAVOR = tsan ] && echo -fsanitize=thread )" \
    -Dnlohmann_json_DIR=/root/miniconda/share/cmake/nlohmann_json \
    > "$BDIR/configure.log" 2>&1 || { cat "$BDIR/configure.log"; exit 2; }
fi
cmake --build "$BDIR" --target $TARGET -j ${VERIF_JOBS:-16} > "$BDIR/build.log" 2>&1 || { tail -60 "$BDIR/build.log"; exit 2; }
