#!/bin/bash
# Confirm a seeded change independently in the scratch test tree:
#   1. demo (test source + cmake wiring) on the UNCHANGED tree  -> must pass
#   2. demo with the patch                                      -> must fail
#   3. full existing suite with the patch (demo removed)        -> must pass as baseline
# usage: confirm_seed.sh <patch.diff> <demo_src> <dest rel path in repo> <cmake_wiring.diff> <ctest -R regex>
PATCH=$(readlink -f $1); DEMO=$(readlink -f $2); DEST=$3; WIRE=$(readlink -f $4); REGEX=$5
WT=/var/tmp/test-wt; BD=/var/tmp/test-build
git -C $WT checkout -q --detach $(git -C /repo rev-parse HEAD); git -C $WT checkout -q -- .; git -C $WT clean -fdq test
cp $DEMO $WT/$DEST; git -C $WT apply $WIRE || { echo WIRE-FAILED; exit 3; }
echo "--- demo without change"; cmake --build $BD -j12 -- -k 0 > $BD.build.log 2>&1; ctest --test-dir $BD -R "$REGEX" 2>&1 | grep -E "tests passed|Passed|Failed|\*\*\*"
git -C $WT apply $PATCH || { echo PATCH-FAILED; exit 3; }
echo "--- demo with change"; cmake --build $BD -j12 -- -k 0 > $BD.build.log 2>&1; ctest --test-dir $BD -R "$REGEX" 2>&1 | grep -E "tests passed|Passed|Failed|\*\*\*"
# remove demo, keep patch: full suite
git -C $WT checkout -q -- test; rm -f $WT/$DEST
echo "--- full suite with change"; cmake --build $BD -j12 -- -k 0 > $BD.build.log 2>&1; ctest --test-dir $BD -j8 --timeout 900 > $BD.ctest.log 2>&1; grep -E "tests passed" $BD.ctest.log; grep -E "^\s+[0-9]+ - .*\((Failed|Timeout|SEGFAULT|Subprocess)" $BD.ctest.log | head
git -C $WT checkout -q -- .; git -C $WT clean -fdq test
