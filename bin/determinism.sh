#!/bin/bash
# Determinism proof: every property's quick plan set is executed (a) twice per
# plan inside each worker (--repeat 2) with 16 workers and (b) again with 5
# workers in fresh processes; the order-independent aggregate of the per-plan
# history hashes must agree.  usage: bin/determinism.sh [Cnn ...]   -> reports/determinism.json
VERIF=$(cd "$(dirname "$0")/.." && pwd); cd "$VERIF" || exit 2
PROPS=${@:-C01 C02 C03 C04 C05 C06 C07 C08 C11 C16 C17 C19}
mkdir -p reports /var/tmp/vsim-det
OUT=reports/determinism.json; echo "{" > $OUT.tmp; FIRST=1; RC=0
for P in $PROPS; do
  BIN=.build/asan/vsim; EXTRA="--run-timeout-s 1800"; [ $P = C07 ] && BIN=.build/tsan/vsim
  SEED=${VERIF_SEED:-1}
  $BIN run --property $P --seed $SEED --repeat 2 --workers 16 $EXTRA --verif-dir /var/tmp/vsim-det --evidence /var/tmp/vsim-det/a.json > /var/tmp/vsim-det/a.log 2>&1
  $BIN run --property $P --seed $SEED --workers 5 $EXTRA --verif-dir /var/tmp/vsim-det --evidence /var/tmp/vsim-det/b.json > /var/tmp/vsim-det/b.log 2>&1
  R=$(python3 - <<PY
import json
a=json.load(open('/var/tmp/vsim-det/a.json'))['coverage']; b=json.load(open('/var/tmp/vsim-det/b.json'))['coverage']
ok = a['aggregate_history_hash']==b['aggregate_history_hash'] and a['determinism_check']['mismatches']==0 and a['plans_run']==b['plans_run']
print(json.dumps({"plans":a['plans_run'],"in_process_repeat_mismatches":a['determinism_check']['mismatches'],"hash_16_workers":a['aggregate_history_hash'],"hash_5_workers":b['aggregate_history_hash'],"equal":ok}))
PY
)
  echo "$P $R"
  echo "$R" | grep -q '"equal": true' || RC=1
  [ $FIRST = 1 ] || echo "," >> $OUT.tmp; FIRST=0
  echo "\"$P\": $R" >> $OUT.tmp
done
echo "}" >> $OUT.tmp; mv $OUT.tmp $OUT; rm -rf /var/tmp/vsim-det
exit $RC
