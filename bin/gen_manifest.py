#!/usr/bin/env python3
"""Regenerate MANIFEST.json from the table below (single source of truth)."""
import json, os
V = os.path.dirname(os.path.dirname(os.path.abspath(__file__)))

NA = {
 "C09": "pure function of (object tree, probe point): construction is deterministic and has no schedule, fault, clock, storage or history; comparing OrangeParams membership with analytic membership over generated trees is input generation, not simulation (DESIGN §12.6; plan's 'weak fit' claim withdrawn)",
 "C10": "pure boolean equivalence over all sense assignments of all CSG trees: no schedule, fault, clock or history in the statement (DESIGN §6)",
 "C12": "pure relations between calc_sense/calc_intersections/calc_normal of one immutable surface at one (pos,dir) (DESIGN §6)",
 "C13": "identity in GF(2) linear algebra over 2^160 states and 2^64 counts; no run observes it (DESIGN §6)",
 "C14": "pure numeric functions of (table, energy, step) (DESIGN §6)",
 "C15": "decisive clause is statistical agreement with a density; nothing to schedule or break, and no sound never-false-alarm invariant (DESIGN §6)",
 "C18": "pure functions of a sequence / a grid and a query (DESIGN §6)",
 "C20": "per-photon relations of a pure function; the in-loop path needs Geant4 data and is disabled in this build (DESIGN §6)",
}

CHECKS = {}
def chk(pid, cat, text, note, technique, design_ref, world):
    CHECKS[pid] = dict(cat=cat, text=text, note=note, technique=technique, ref=design_ref, world=world)

T_NOTE = ("Trusted base: the harness (plan generator, recorder, oracles), gcc 12 + ASan/UBSan, synthetic physics tables, "
          "the library's own track views used for observation. Physics outcomes come from a simulator-owned stub model applied "
          "through the real InteractionApplier and, in a third of the plans, additionally from the real KleinNishinaModel, "
          "MollerBhabhaModel and EPlusAnnihilationProcess/EPlusGGModel (simulator-owned cross-section tables; the annihilation "
          "cross section is the library's on-the-fly one); models that need imported data run only on C04's bench.")

chk("C01", "exploration",
    "Seeded search over generated problems x configurations x workloads on the real Stepper; every step of every track is "
    "judged by the per-step balance q_pre = q_post + deposit + sum(q_secondaries) (q = KE + 2mc^2 for e+), and every completed "
    "event/track by the summed balance, to rounding of the additions performed. Exploration is the right level: the quantifier "
    "is over continuous inputs and configurations, so the space cannot be enumerated; relations (not gold values) make every "
    "generated history decidable.", T_NOTE,
    "deterministic simulation: seeded plan search with conservation oracle", "§5 C01", "T")
chk("C02", "exploration",
    "Seeded search over per-step outcome sequences (who dies, 0..k secondaries, sub-cut ones, primaries arriving mid-flight, "
    "merged events), 1-64 slots, all 8 track orders, exact-fit initializer capacity (two-pass), checked step by step against a "
    "reference track-set model (pending-initializer multiset + slot map) incl. the four reported counters and bounded termination; a step that does not end in a physics model action must report no secondaries (so a stale secondaries span cannot make phantom tracks look expected).",
    T_NOTE, "deterministic simulation: refinement against reference track-set model", "§5 C02", "T")
chk("C05", "exploration",
    "Per-track step-chain relations over the same simulated histories: bitwise continuity post(k)=pre(k+1), time/energy monotone, "
    "0 < step <= pre-step limit, |displacement| <= step (+2*delta_intersection in a field, the propagator's documented tolerance), "
    "volume changes only on boundary steps, reported volume = volume found by a fresh initialization at the same point, "
    "status monotone within the step.", T_NOTE,
    "deterministic simulation: history invariants over seeded runs", "§5 C05", "T")
chk("C17", "exploration",
    "Several StepInterface callbacks with plan-chosen selections and detector/non-zero filters are registered at once; the "
    "multiset of steps an independent observer saw (restricted by the declared filters) must equal what each callback was "
    "delivered, field by field bitwise, with exactly one invocation per step.", T_NOTE,
    "deterministic simulation: observer-vs-delivered history equality", "§5 C17", "T")

chk("C06", "exploration",
    "For a seeded target event: reference = the event alone on a fresh state; variant = the same slot count after a seeded "
    "history (other events, events aborted by a throwing user action at a seeded (step, order) followed by reset_state(), "
    "kill_active(), warm-up) under a seeded configuration (6 re-indexing policies, reindex_shuffle with a fresh permutation "
    "written into the indirection array before every step, action timing under a jumping simulated clock, status checker). "
    "Oracle: bit-identical per-track step histories (by track id / step, action ids compared by label), step count and tallies.",
    T_NOTE + " init_charge is a layout policy and is not compared across.",
    "deterministic simulation: differential replay after seeded history/abort/reset faults", "§5 C06", "T6")

chk("C16", "fault_enumeration",
    "Per generated event, faults are enumerated rather than sampled: (a) every step that allocates secondaries x every free-cell "
    "count 0..need-1 (stack pre-filled at user_pre of that step) plus whole-event runs with 0/1/2 free cells; oracle: failed "
    "interactions leave the track alive with nothing emitted, stack size never exceeds capacity, the event terminates, and the "
    "C01 per-step/per-track/per-event energy balance and C02 track-set model hold exactly; (b) every initializer capacity "
    "1..peak-1 must end in celeritas::RuntimeError (no crash, no ASan report), capacity == peak must not, and after reset_state() "
    "a later event must equal its fresh-state history bitwise. Caps per plan (max_stack_steps, max_caps) are reported; events "
    "fully enumerated are counted.",
    T_NOTE + " Stack fullness is injected by raising the size cell of the real StackAllocator from a user_pre action.",
    "deterministic simulation: enumerated fault points (stack cells x steps, capacities) with recovery oracle", "§5 C16", "T16")

G_NOTE = ("Trusted base: RefGeo (own quadric evaluation, RPN evaluation, transform chain, root finding in long double), the geometry "
          "generator's validity envelope (volumes of a unit partition space by construction), gcc 12 + ASan/UBSan. Near-surface, "
          "near-coincident and grazing configurations are skipped and counted, not judged. Involute surfaces are not modelled.")
chk("C03", "exploration",
    "1-8 clients (slots of one OrangeStateData) execute seeded, scheduler-interleaved operation sequences permitted by the documented "
    "call order (init, find_next_step[(max)], move_internal, move_to_boundary, cross_boundary, set_dir incl. on boundaries and reversing, "
    "move_internal(pos), copy-initialisation) on bundled, generated and construction-API-built geometries; after every operation the reported volume, distance, "
    "boundary flag and post-crossing volume are compared with an independent reference locator built from the same OrangeInput; other "
    "slots must be untouched.", G_NOTE,
    "deterministic simulation: stateful navigator vs executable reference model, seeded op interleaving", "§5 C03", "G")
chk("C11", "exploration",
    "Same clients and geometries; whenever a client is off-boundary the reported safety s is checked: s >= 0, points at distance "
    "s(1-1e-6) in 24 seeded directions locate (reference) to the same volume path, and the navigator's own find_next_step in 8 of "
    "those directions is >= s. Every nesting level and both tracker types occur.", G_NOTE,
    "deterministic simulation: invariant over seeded navigation histories vs reference locator", "§5 C11", "G")
chk("C19", "exploration",
    "Weak fit, stated in DESIGN: the simulator owns the stream layer (a streambuf that accepts/exposes 1..k bytes per call, "
    "optional comma-decimal global locale) and the differential replay. Each geometry input (bundled file or generated) is written "
    "and read back through it; oracle: field-by-field structural equality (surfaces bitwise, faces, logic, flags, zorder, bboxes, "
    "labels, daughters and transforms, array grids, tolerances) and bit-identical navigation histories of the same client plans on "
    "OrangeParams(A) and OrangeParams(B).", G_NOTE + " Geometries come from bundled files, the direct generator and (one plan in six) seeded object trees converted by the real construction API (InputBuilder).",
    "deterministic simulation: short-read/short-write stream faults + differential replay of navigation", "§5 C19", "G")

I_NOTE = ("Trusted base: the harness, gcc 12 + ASan/UBSan, hand-built model data (no Geant4): Seltzer-Berger tables only for Z=29 and "
          "Livermore/EADL only for Z=19 (the data shipped with the tests). Not run: Coulomb/Wentzel, CHIPS neutron elastic, hadron ionisation "
          "for protons/alphas (need imported data that cannot be produced here). Energy balance tolerance 1e-11 relative; momentum 1e-6 "
          "relative, judged only for models that return every product.")
chk("C04", "exploration",
    "Clients call 13 real interactors through their public headers. The simulator owns the random stream (seeded counting engine, "
    "optionally forcing whole canonical draws to 0 or 1-2^-53 at seeded positions, 2e6 draw budget = bounded sampling), the secondary "
    "storage (real StackAllocator whose free cells are set per call to 0..max needed: the allocation fault; occupied cells carry a "
    "pattern) and the inputs (energy over the closed applicability interval incl. both end points and points 1e-6 inside them, directions "
    "on the sphere incl. the poles, element/material, production cut, LPM/relaxation/Auger). Oracles per call: explicit failure iff too "
    "few cells, with no secondaries, no deposit, stack size and occupied cells unchanged; otherwise allocation accounting, finite "
    "non-negative energies, unit directions, defined particle ids, secondaries above the model's own threshold, energy balance with "
    "2mc^2 per created/annihilated positron, momentum balance for closed two-body models, draw budget.",
    I_NOTE, "deterministic simulation: allocation-fault and random-stream fault injection on an interactor bench with conservation oracle", "§5 C04", "I")

chk("C08", "exploration",
    "Clients propagate e-, e+, mu-, p of 1 keV..100 GeV through uniform fields of 1e-3..20 T (any direction; z-aligned for the exact "
    "helix stepper) on bundled and generated geometries with the real FieldPropagator/FieldDriver and all three integrators, under "
    "seeded FieldDriverOptions (defaults or values inside validate_input) and seeded subdivisions of the path into propagate(step) "
    "calls from below minimum_step to many turns, starts on boundaries included. The propagator reaches the navigator only through a "
    "recording proxy (the GTV template seam). Oracles per call: energy unchanged and unit direction; 0 < distance <= step; returned "
    "flag == geo.is_on_boundary(); outcome is full step / looping / boundary (a short unflagged step must be a bump <= 0.1 "
    "delta_intersection); end point on the analytic helix within 3 eps_rel_max s (2 + n_substeps) + 3(delta_intersection "
    "+ minimum_step); unflagged end points lie in the start volume; flagged ones lie on a reference surface, the helix before the hit "
    "stays in the start volume up to the chord tolerance, and the post-crossing volume is the one the path enters.",
    G_NOTE + " RZMapField is not run (no field map is generated). The accuracy model of the driver is an assumption calibrated on the "
    "unchanged tree (largest observed error/tolerance outside the recorded finding regimes, over 3e5 plans: 0.31).",
    "deterministic simulation: seeded step subdivision and driver configuration vs analytic helix and reference locator", "§5 C08", "G8")

chk("C07", "exploration",
    "k = 2..8 real threads, each building and driving its own Stepper over one shared CoreParams (step collector, calorimeter, "
    "action/step diagnostics, optional status checker), exactly one runnable under a seeded baton scheduler that may pre-empt at "
    "every guarded yield point (before every action, in the lazy initialisations, at user actions, between events); static, block "
    "and dynamic event->stream assignment. Oracle A: per-event per-track histories bitwise equal to the serial single-stream run; "
    "shared tallies equal the streams' own histories. Oracle B: the binary is built with -fsanitize=thread and the baton hand-off "
    "(raw futex in an unsanitized translation unit) creates no happens-before edge, so every pair of conflicting accesses not "
    "ordered by the program's own synchronisation is reported deterministically for the explored schedule.",
    T_NOTE + " Interleaving granularity is the action; instruction-level races are caught by happens-before analysis, not by "
    "manifestation. celer-sim's Transporter/Runner driver is not run (OpenMP off).",
    "deterministic simulation: seeded thread schedules (baton) + serial-equivalence oracle + happens-before race detection", "§5 C07", "T7")

def main():
    checks = []
    for pid in sorted(CHECKS):
        c = CHECKS[pid]
        checks.append({
            "property_id": pid,
            "quick_cmd": f"bin/check {pid} quick",
            "thorough_cmd": f"bin/check {pid} thorough",
            "evidence_file": f"evidence/{pid}.json",
            "replay_cmd_template": (".build/tsan/vsim replay {path}" if pid == "C07" else ".build/asan/vsim replay {path}"),
            "engine": "vsim",
            "level_claimed": {"category": c["cat"], "text": c["text"], "design_ref": c["ref"]},
            "level_note": c["note"],
            "technique": c["technique"],
        })
    na = [{"property_id": k, "reason": v} for k, v in sorted(NA.items())]
    claimed = set(CHECKS)
    all_ids = [f"C{i:02d}" for i in range(1, 21)]
    for pid in all_ids:
        if pid not in claimed and pid not in NA:
            na.append({"property_id": pid, "reason": "claimed in DESIGN.md; check not built yet in this tree (work in progress)"})
    na.sort(key=lambda e: e["property_id"])
    m = {
        "version": 1,
        "setup_cmd": "bin/setup.sh",
        "hooks": {
            "guard": "CELERITAS_VERIF_SIM",
            "enable": "bin/build.sh configures /repo as a sub-project of /verif/cmake with -DCELERITAS_VERIF_SIM in CMAKE_CXX_FLAGS (builds under /verif/.build/<flavour>)",
            "baseline_off_cmd": "cmake --build /repo/_build -j16 -- -k 0; ctest --test-dir /repo/_build -j8 --timeout 900",
            "source_commits": ["85a1df8", "4034b91"],
            "add_only": True,
        },
        "engines": [{
            "name": "vsim", "path": "sim/",
            "serves_properties": sorted(CHECKS),
            "kind_free_text": "deterministic simulator: seeded plan generation, forked in-process workers, fault injection at user actions, recorder + per-property oracles, reproduce-twice gate, greedy plan minimiser, replay files",
        }],
        "checks": checks,
        "not_applicable": na,
        "notes": "One integer (VERIF_SEED) decides every plan. Replay: .build/asan/vsim replay <file>. See DESIGN.md.",
    }
    json.dump(m, open(os.path.join(V, "MANIFEST.json"), "w"), indent=1)
    print("wrote MANIFEST.json with", len(checks), "checks")

if __name__ == "__main__":
    main()
