#!/bin/bash
# Sensitivity helper: apply a patch to a scratch worktree of /repo, rebuild the
# harness against it and run the named checks.   usage: mutant.sh <patch> <Cnn>...
# Scratch worktree: /var/tmp/mut-wt, build tree: /var/tmp/mut-build (outside /repo, /verif)
PATCH=$(readlink -f "$1"); shift
WT=/var/tmp/mut-wt
[ -d $WT ] || git -C /repo worktree add -q $WT HEAD
git -C $WT checkout -q --detach $(git -C /repo rev-parse HEAD)
git -C $WT checkout -q -- . 
git -C $WT apply "$PATCH" || { echo "patch does not apply"; exit 3; }
cd /verif
VERIF_REPO=$WT VERIF_BUILD_ROOT=/var/tmp/mut-build bin/build.sh asan || { echo BUILD-FAILED; git -C $WT checkout -q -- .; exit 2; }
mkdir -p /var/tmp/mut-out; cp /verif/known_findings.json /var/tmp/mut-out/
for P in "$@"; do
  T0=$(date +%s.%N)
  /var/tmp/mut-build/asan/vsim run --property $P --seed ${VERIF_SEED:-1} --verif-dir /var/tmp/mut-out ${MUT_ARGS} > /var/tmp/mut-out/$P.log 2>&1
  RC=$?
  T1=$(date +%s.%N)
  echo "== $P exit=$RC $(printf %.1f $(echo "$T1-$T0"|bc))s $(grep -c '^VIOLATION' /var/tmp/mut-out/$P.log) violation lines"
  grep -E "^violation" /var/tmp/mut-out/$P.log | cut -c1-300 | head -4
done
git -C $WT checkout -q -- .
