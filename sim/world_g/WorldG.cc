// World G: the navigation world.  Real OrangeParams / OrangeTrackView on a
// state of n slots; each slot is a client executing a seeded operation
// sequence allowed by the documented call order; a seeded scheduler
// interleaves the clients.  Every operation is judged against RefGeo.
#include <cmath>
#include <cstring>
#include <iostream>
#include <map>
#include <sstream>

#include "corecel/data/CollectionStateStore.hh"
#include "corecel/io/Logger.hh"
#include "orange/OrangeData.hh"
#include "orange/OrangeInputIO.json.hh"
#include "orange/OrangeParams.hh"
#include "orange/OrangeTrackView.hh"

#include "core/World.hh"
#include "ref/RefGeo.hh"
#include "world_g/GeoGen.hh"
#include "world_s/StreamSim.hh"

using namespace celeritas;

namespace vsim
{
namespace
{
constexpr double kGapFactor = 100;  //!< features closer than this x tol are not judged

std::vector<std::pair<char const*, double>> const& file_choices()
{
    static std::vector<std::pair<char const*, double>> const v = {
        {"test/geocel/data/two-boxes.org.json", 1},
        {"test/geocel/data/three-spheres.org.json", 1},
        {"test/geocel/data/four-steel-slabs.org.json", 1},
        {"test/geocel/data/one-steel-sphere.org.json", 1},
        {"test/geocel/data/lar-sphere.org.json", 1},
        {"test/geocel/data/lead-box.org.json", 0.5},
        {"test/geocel/data/field-layers.org.json", 1},
        {"test/geocel/data/simple-cms.org.json", 1},
        {"test/geocel/data/testem15.org.json", 1},
        {"test/geocel/data/testem3-flat.org.json", 1},
        {"test/orange/data/five-volumes.org.json", 1},
        {"test/orange/data/universes.org.json", 2},
        {"test/orange/data/rect-array.org.json", 2},
        {"test/orange/data/nested-rect-arrays.org.json", 2},
        {"test/orange/data/hex-array.org.json", 2},
        {"test/orange/data/inputbuilder-hierarchy.org.json", 2},
        {"test/orange/data/inputbuilder-universes.org.json", 2},
        {"test/orange/data/inputbuilder-globalspheres.org.json", 1},
        {"test/orange/data/inputbuilder-bgspheres.org.json", 1},
        {"test/orange/data/testem3.org.json", 0.5},
        {"test/orange/data/geant4-testem15.org.json", 1},
        {"test/orange/data/field-layers.org.json", 0.5},
    };
    return v;
}

struct Snap
{
    double pos[3], dir[3];
    std::uint32_t vol;
    bool outside, on_boundary;
    bool operator==(Snap const& o) const { return std::memcmp(this, &o, sizeof(Snap)) == 0; }
};

struct Client
{
    bool inited{false};
    bool failed{false};
    bool has_next{false};
    bool next_boundary{false};
    double next_dist{0};
    bool pending_cross{false};
    bool reversed_after_cross{false};  //!< direction reversed on a boundary after crossing it
    bool ref_reversed{false};  //!< reference: direction now leaves the current volume through the surface we sit on
    std::string ref_reversed_info;
    int crossings{0};
};

struct GeoUnderTest
{
    std::shared_ptr<OrangeParams> params;
    std::unique_ptr<RefGeo> ref;
    double lo[3], hi[3], scale;
    GenGeoStats gstats;
};

void set_bounds(GeoUnderTest& g)
{
    auto const& bb = g.params->bbox();
    g.scale = 0;
    for (int k = 0; k < 3; ++k)
    {
        double lo = bb.lower()[k], hi = bb.upper()[k];
        if (!std::isfinite(lo) || lo < -1e4)
            lo = -100;
        if (!std::isfinite(hi) || hi > 1e4)
            hi = 100;
        g.lo[k] = lo;
        g.hi[k] = hi;
        g.scale = std::max(g.scale, hi - lo);
    }
}

std::string fmt3(double const v[3])
{
    std::ostringstream os;
    os.precision(17);
    os << "(" << v[0] << "," << v[1] << "," << v[2] << ")";
    return os.str();
}

//! Outcome of one geometry/plan execution
struct NavRun
{
    Hasher hash;  //!< bitwise history of everything the navigator reported
    long ops{0};
};

class WorldG : public World
{
  public:
    std::string name() const override { return "G (navigation)"; }

    json make_plan(CheckSpec const& spec, std::uint64_t index) const override
    {
        Rng root(mix64(spec.seed) ^ mix64(index * 0x9e3779b97f4a7c15ull + 303));
        Rng rg = root.sub("geom");
        Rng rp = root.sub("plan");
        Rng rs = root.sub("sched");
        bool thorough = spec.tier == "thorough";
        json plan;
        plan["world"] = "G";
        plan["property"] = spec.property;
        plan["seed"] = spec.seed;
        plan["index"] = index;
        json geo;
        bool use_gen = rg.coin(spec.property == "C19" ? 0.5 : 0.65);
        // one plan in six: an object tree converted by the construction API
        bool use_api = rg.coin(1.0 / 6);
        if (use_api)
        {
            geo["kind"] = "api";
            geo["seed"] = (std::uint64_t)rg.next();
            geo["half_width"] = rg.coin(0.5) ? 10.0 : rg.log_uniform(1.0, 200.0);
            geo["max_depth"] = (int)rg.below(3);
        }
        else if (use_gen)
        {
            geo["kind"] = "gen";
            geo["seed"] = (std::uint64_t)rg.next();
            geo["half_width"] = rg.coin(0.5) ? 10.0 : rg.log_uniform(0.5, 500.0);
            geo["max_depth"] = (int)rg.below(4);
            geo["max_objects"] = 1 + (int)rg.below(5);
            geo["max_terms"] = 1 + (int)rg.below(4);
            geo["p_daughter"] = rg.uniform(0.2, 0.9);
            geo["p_array"] = rg.uniform(0.0, 0.7);
        }
        else
        {
            std::vector<double> w;
            for (auto const& f : file_choices())
                w.push_back(f.second);
            geo["kind"] = "file";
            geo["file"] = std::string(VERIF_REPO_DIR) + "/" + file_choices()[rg.weighted(w)].first;
        }
        plan["geometry"] = geo;
        int nslots = 1 + (int)rp.below(thorough ? 8 : 4);
        plan["slots"] = nslots;
        int nops = (thorough ? 120 : 60) * nslots;
        // op mix (swarm): per-plan weights
        std::vector<double> w = {1.0,  // init
                                 6.0,  // next
                                 rp.uniform(0, 2),  // next_max
                                 5.0,  // advance (to_boundary / move)
                                 5.0,  // cross
                                 rp.uniform(0.5, 4),  // set_dir
                                 rp.uniform(0, 2),  // move_pos
                                 (spec.property == "C11" ? 4.0 : rp.uniform(0, 1.5)),  // safety
                                 rp.uniform(0, 0.7),  // copy_from
                                 rp.uniform(0, 1.5)};  // next_tie
        json ops = json::array();
        for (int i = 0; i < nops; ++i)
        {
            json op;
            op["s"] = (int)rs.below(nslots);
            op["k"] = (int)rp.weighted(w);
            op["u"] = {rp.uniform(), rp.uniform(), rp.uniform(), rp.uniform(), rp.uniform(), rp.uniform()};
            ops.push_back(op);
        }
        plan["ops"] = ops;
        if (spec.property == "C19")
        {
            Rng ri = root.sub("io");
            plan["io"] = {{"write_chunk", 1 + (int)ri.below(64)},
                          {"read_chunk", 1 + (int)ri.below(64)},
                          {"seed", (std::uint64_t)ri.next()},
                          {"comma_locale", ri.coin(0.3)},
                          {"indent", ri.coin(0.5) ? -1 : (int)ri.below(3)}};
        }
        return plan;
    }

    //-----------------------------------------------------------------------//
    //! Run the op sequence on a geometry; judge against `ref` if non-null
    NavRun run_ops(json const& plan,
                   GeoUnderTest& g,
                   bool judge,
                   RunResult& rr,
                   std::string const& property) const
    {
        NavRun out;
        int nslots = plan.at("slots");
        auto const& pref = g.params->host_ref();
        CollectionStateStore<OrangeStateData, MemSpace::host> state(pref, nslots);
        std::vector<Client> cl(nslots);
        RefGeo const* ref = judge ? g.ref.get() : nullptr;
        double tol = ref ? std::max(ref->tol_abs(), ref->tol_rel() * g.scale) : 1e-8;
        ld gap = kGapFactor * tol;
        bool c03 = property == "C03" || property == "C19";
        bool c11 = property == "C11" || property == "C03";
        bool trace = std::getenv("VSIM_TRACE") != nullptr;

        auto view = [&](int s) {
            return OrangeTrackView(pref, state.ref(), TrackSlotId(s));
        };
        auto snap = [&](int s) {
            Snap sn;
            std::memset(&sn, 0, sizeof(sn));
            if (!cl[s].inited)
                return sn;
            auto v = view(s);
            for (int k = 0; k < 3; ++k)
            {
                sn.pos[k] = v.pos()[k];
                sn.dir[k] = v.dir()[k];
            }
            sn.outside = v.is_outside();
            sn.on_boundary = v.is_on_boundary();
            sn.vol = sn.outside ? kNoVol : v.volume_id().get();
            return sn;
        };
        auto record = [&](int s, int kind, double a, double b) {
            Snap sn = snap(s);
            out.hash.add(s);
            out.hash.add(kind);
            out.hash.add(a);
            out.hash.add(b);
            out.hash.add_bytes(&sn, sizeof(sn));
            if (trace && judge)
            {
                std::cerr.precision(17);
                std::cerr << "op slot=" << s << " " << kOpNames[kind] << " a=" << a << " b=" << b
                          << " pos=" << fmt3(sn.pos) << " dir=" << fmt3(sn.dir) << " vol=" << (int)sn.vol
                          << " onb=" << sn.on_boundary << " out=" << sn.outside;
                if (ref)
                {
                    ld x[3] = {sn.pos[0], sn.pos[1], sn.pos[2]};
                    RefPath p = ref->locate(x);
                    std::cerr << " ref@pos=" << p.str() << " leaf=" << (int)p.leaf
                              << " clear=" << (double)ref->clearance(x, p);
                }
                std::cerr << "\n";
            }
        };
        auto violate = [&](std::string const& p, std::string const& k, std::string const& fp, std::string const& msg) {
            if (judge)
                rr.violate(p, k, fp, msg);
        };
        auto refpath_at = [&](double const pos[3], ld* clear) {
            ld x[3] = {pos[0], pos[1], pos[2]};
            RefPath p = ref->locate(x);
            if (clear)
                *clear = ref->clearance(x, p);
            return p;
        };
        //! Invariant: off-boundary, clear of surfaces => reported volume is
        //! the volume containing the reported position
        auto check_sync = [&](int s, char const* after) {
            if (!ref || !c03 || !cl[s].inited || cl[s].failed)
                return;
            auto v = view(s);
            if (v.is_on_boundary())
                return;
            double pos[3] = {v.pos()[0], v.pos()[1], v.pos()[2]};
            ld clear;
            RefPath p = refpath_at(pos, &clear);
            if (!p.valid || clear < gap)
            {
                rr.count("skipped_near_surface");
                return;
            }
            rr.count("location_checks");
            std::uint32_t got = v.is_outside() ? kNoVol : v.volume_id().get();
            std::uint32_t want = p.outside ? kNoVol : p.leaf;
            if (got != want)
            {
                violate("C03",
                        "volume-desynchronised",
                        std::string("volume-desynchronised:after-") + after,
                        std::string("after ") + after + " slot " + std::to_string(s)
                            + " reports volume " + std::to_string((int)got) + " but position "
                            + fmt3(pos) + " lies in volume " + std::to_string((int)want) + " "
                            + p.str());
            }
        };

        for (auto const& op : plan.at("ops"))
        {
            int s = op.at("s").get<int>() % nslots;
            int kind = op.at("k");
            auto const& u = op.at("u");
            Client& c = cl[s];
            // ---- map illegal ops to legal ones (call-order protocol) ----
            if (!c.inited || c.failed)
                kind = 0;
            else
            {
                auto v = view(s);
                bool outside = v.is_outside();
                if (outside && kind != 0)
                    kind = 0;  // left the world: start again
                if (kind == 3 && !c.has_next)
                    kind = 1;
                if (kind == 4 && !c.pending_cross)
                    kind = c.has_next ? 3 : 1;
                if ((kind == 6 || kind == 7) && (v.is_on_boundary() || c.pending_cross))
                    kind = c.pending_cross ? 4 : 1;
                if (c.pending_cross && (kind == 1 || kind == 2 || kind == 3 || kind == 8 || kind == 9))
                    kind = 4;  // the only things allowed on an uncrossed boundary: cross, set_dir, init
                if (c.reversed_after_cross && kind == 5)
                    kind = 4;  // reentrant after a completed crossing: resolve it first
                if (kind == 8)
                {
                    // need another initialised, sane slot
                    int src = (s + 1 + (int)(u[0].get<double>() * (nslots - 1))) % nslots;
                    // copy-initialisation is only used for secondaries born
                    // inside a volume: the source must not sit on a boundary
                    if (nslots < 2 || !cl[src].inited || cl[src].failed || src == s
                        || view(src).is_outside() || view(src).is_on_boundary()
                        || cl[src].pending_cross)
                        kind = 1;
                }
            }
            std::vector<Snap> before;
            if (judge && nslots > 1)
                for (int i = 0; i < nslots; ++i)
                    before.push_back(snap(i));
            Snap self_before = snap(s);
            ++out.ops;
            rr.count(std::string("op:") + kOpNames[kind]);

            switch (kind)
            {
                case 0: {  // init
                    double pos[3], dir[3];
                    for (int k = 0; k < 3; ++k)
                        pos[k] = op.at("pos")[k];
                    Rng r(mix64((std::uint64_t)(u[4].get<double>() * 1e15)) ^ 77);
                    r.isotropic(dir);
                    if (u[1].get<double>() < 0.15)
                    {
                        // axis-aligned direction (degenerate but legal)
                        int a = (int)(u[2].get<double>() * 3) % 3;
                        dir[0] = dir[1] = dir[2] = 0;
                        dir[a] = u[3].get<double>() < 0.5 ? 1 : -1;
                    }
                    if (op.contains("dirfix"))
                        for (int k = 0; k < 3; ++k)
                            dir[k] = op["dirfix"][k];
                    auto v = view(s);
                    GeoTrackInitializer gi;
                    gi.pos = {pos[0], pos[1], pos[2]};
                    gi.dir = {dir[0], dir[1], dir[2]};
                    v = gi;
                    c = Client{};
                    c.inited = true;
                    c.failed = v.failed();
                    record(s, kind, pos[0], dir[0]);
                    if (ref && c03)
                    {
                        ld clear;
                        RefPath p = refpath_at(pos, &clear);
                        if (p.valid && clear > gap)
                        {
                            rr.count("init_checks");
                            if (v.failed())
                                violate("C03",
                                        "init-failed",
                                        "init-failed",
                                        "initialization failed at an interior point " + fmt3(pos)
                                            + " of " + p.str());
                            else if (v.is_outside() != p.outside
                                     || (!p.outside && v.volume_id().get() != p.leaf))
                                violate("C03",
                                        "init-wrong-volume",
                                        "init-wrong-volume",
                                        "initialization at " + fmt3(pos) + " gives volume "
                                            + (v.is_outside() ? std::string("outside")
                                                              : std::to_string(v.volume_id().get()))
                                            + " but the point lies in " + std::to_string((int)p.leaf)
                                            + " " + p.str());
                        }
                    }
                    break;
                }
                case 9: {  // limited search with the limit exactly at the boundary distance
                    auto v = view(s);
                    bool onb = v.is_on_boundary();
                    Propagation full = v.find_next_step();
                    if (onb && full.boundary && full.distance == 0)
                    {
                        // re-entrant zero step: same handling as a plain search
                        c.has_next = false;
                        c.pending_cross = true;
                        c.reversed_after_cross = true;
                        record(s, kind, full.distance, full.boundary);
                        break;
                    }
                    if (!full.boundary || !std::isfinite(full.distance) || !(full.distance > 0))
                    {
                        c.has_next = true;
                        c.next_boundary = full.boundary;
                        c.next_dist = full.distance;
                        record(s, kind, full.distance, full.boundary);
                        break;
                    }
                    // same direction again: clears the cached step
                    Real3 same = v.dir();
                    double d3[3] = {same[0], same[1], same[2]};
                    v.set_dir(same);
                    Propagation lim = v.find_next_step(full.distance);
                    c.has_next = true;
                    c.next_boundary = lim.boundary;
                    c.next_dist = lim.distance;
                    c.ref_reversed = false;
                    record(s, kind, lim.distance, lim.boundary);
                    rr.probe("limit_equals_boundary_distance");
                    if (judge && c03 && (!lim.boundary || lim.distance != full.distance))
                    {
                        double pos[3] = {v.pos()[0], v.pos()[1], v.pos()[2]};
                        std::ostringstream os;
                        os.precision(17);
                        os << "unlimited find_next_step from " << fmt3(pos) << " dir " << fmt3(d3)
                           << " gives a boundary at " << full.distance
                           << " but the search limited to exactly that distance returns "
                           << lim.distance << " boundary=" << lim.boundary;
                        violate("C03",
                                "limited-search-drops-boundary-at-limit",
                                "limited-search-drops-boundary-at-limit",
                                os.str());
                    }
                    break;
                }
                case 1:
                case 2: {  // find_next_step [max]
                    auto v = view(s);
                    double pos[3] = {v.pos()[0], v.pos()[1], v.pos()[2]};
                    double dir[3] = {v.dir()[0], v.dir()[1], v.dir()[2]};
                    bool onb = v.is_on_boundary();
                    double maxd = 0;
                    Propagation pr;
                    if (kind == 2)
                    {
                        maxd = g.scale * std::exp(std::log(1e-4) + u[0].get<double>() * std::log(1e4));
                        pr = v.find_next_step(maxd);
                    }
                    else
                    {
                        pr = v.find_next_step();
                    }
                    c.has_next = true;
                    c.next_boundary = pr.boundary;
                    c.next_dist = pr.distance;
                    if (c.ref_reversed && !(onb && pr.boundary && pr.distance == 0))
                    {
                        // The reference says the direction set on this boundary
                        // (after crossing it) leaves the current volume, but the
                        // navigator did not report a zero step: it will now
                        // travel through the neighbour while labelled with the
                        // old volume.
                        record(s, kind, pr.distance, pr.boundary);
                        bool rot = c.ref_reversed_info.find("rotated") != std::string::npos;
                        std::string fp = rot ? "reversal-after-crossing-undetected:rotated-daughter"
                                             : "reversal-after-crossing-undetected";
                        std::ostringstream os;
                        os.precision(17);
                        os << "set_dir on a boundary after crossing points back out of volume "
                           << (v.is_outside() ? -1 : (int)v.volume_id().get()) << " at " << fmt3(pos)
                           << " dir " << fmt3(dir) << " (" << c.ref_reversed_info
                           << ") but find_next_step returned " << pr.distance
                           << " instead of a zero-length step";
                        violate("C03", "reversal-after-crossing-undetected", fp, os.str());
                        c.ref_reversed = false;
                        c.failed = true;  // desynchronised from here on: restart client
                        break;
                    }
                    c.ref_reversed = false;
                    if (onb && pr.boundary && pr.distance == 0)
                    {
                        // "On a boundary, headed back in: next step is zero":
                        // the direction was reversed on the boundary.  The only
                        // legal continuation is cross_boundary (a null-op
                        // reflection), set_dir or re-initialisation;
                        // move_to_boundary is excluded by its precondition.
                        c.has_next = false;
                        c.pending_cross = true;
                        c.reversed_after_cross = true;
                        rr.probe("reentrant_zero_step");
                        record(s, kind, pr.distance, pr.boundary);
                        break;
                    }
                    record(s, kind, pr.distance, pr.boundary);
                    if (ref && c03)
                    {
                        // expected: from the reference path at (slightly ahead of) pos
                        ld x[3], w[3] = {dir[0], dir[1], dir[2]};
                        ld ahead = onb ? gap / 4 : 0;
                        for (int k = 0; k < 3; ++k)
                            x[k] = pos[k] + ahead * w[k];
                        RefPath cur = ref->locate(x);
                        ld clear = ref->clearance(x, cur);
                        if (!cur.valid || clear < (onb ? gap / 32 : gap))
                        {
                            rr.count("skipped_near_surface");
                            break;
                        }
                        std::uint32_t got_vol = v.is_outside() ? kNoVol : v.volume_id().get();
                        if (onb && got_vol != (cur.outside ? kNoVol : cur.leaf))
                        {
                            // on a boundary the logical volume may legitimately
                            // differ from the side the direction points to only
                            // if a crossing is still pending; it is not here
                            rr.count("skipped_boundary_side_ambiguous");
                            break;
                        }
                        RefCross rc = ref->next_crossing(x, w, cur, gap);
                        if (!rc.clean)
                        {
                            rr.count("skipped_ill_conditioned");
                            break;
                        }
                        rr.count("distance_checks");
                        ld want = rc.found ? rc.dist + ahead : std::numeric_limits<ld>::infinity();
                        bool want_b = rc.found;
                        if (kind == 2 && (!rc.found || want > maxd))
                        {
                            want = maxd;
                            want_b = false;
                        }
                        ld dtol = 4 * tol * std::max<ld>(1, 1) + 1e-12L * std::fabs(want);
                        // near the truncation limit either answer is acceptable
                        bool near_limit = kind == 2 && rc.found
                                          && std::fabs(rc.dist + ahead - maxd) < 4 * dtol;
                        if (near_limit)
                        {
                            rr.count("skipped_near_limit");
                            break;
                        }
                        bool dist_ok = std::isinf((double)want)
                                           ? std::isinf(pr.distance)
                                           : std::fabs((ld)pr.distance - want) <= dtol;
                        if (pr.boundary != want_b || !dist_ok)
                        {
                            std::ostringstream os;
                            os.precision(17);
                            os << "find_next_step" << (kind == 2 ? "(max)" : "") << " from "
                               << fmt3(pos) << " dir " << fmt3(dir) << " in " << cur.str()
                               << (onb ? " (on boundary)" : "") << " returned distance "
                               << pr.distance << " boundary=" << pr.boundary
                               << " but the reference crossing is at " << (double)want
                               << " boundary=" << want_b << " (into " << rc.after.str() << ")";
                            std::string klass = (pr.boundary != want_b)
                                                    ? (pr.boundary ? "boundary-invented"
                                                                   : "boundary-skipped")
                                                    : "boundary-displaced";
                            if (!want_b && !pr.boundary)
                                klass = "limited-search-wrong-distance";
                            violate("C03", klass, klass, os.str());
                        }
                    }
                    break;
                }
                case 3: {  // advance: to the boundary, or part of the way
                    auto v = view(s);
                    bool go_boundary = c.next_boundary && u[0].get<double>() < 0.6;
                    double vol_before = v.is_outside() ? -1 : v.volume_id().get();
                    if (go_boundary)
                    {
                        v.move_to_boundary();
                        c.pending_cross = true;
                        c.has_next = false;
                        record(s, kind, 1, c.next_dist);
                        if (judge && c03)
                        {
                            if (!v.is_on_boundary())
                                violate("C03",
                                        "not-on-boundary-after-move",
                                        "not-on-boundary-after-move",
                                        "is_on_boundary() is false after move_to_boundary");
                            double vb = v.is_outside() ? -1 : v.volume_id().get();
                            if (vb != vol_before)
                                violate("C03",
                                        "volume-changed-before-crossing",
                                        "volume-changed-before-crossing",
                                        "volume changed in move_to_boundary (before "
                                        "cross_boundary)");
                            double disp = 0;
                            for (int k = 0; k < 3; ++k)
                            {
                                double e = self_before.pos[k] + c.next_dist * self_before.dir[k];
                                disp = std::max(disp, std::fabs(v.pos()[k] - e));
                            }
                            if (disp > 1e-9 * (g.scale + c.next_dist))
                                violate("C03",
                                        "moved-to-wrong-point",
                                        "moved-to-wrong-point",
                                        "move_to_boundary did not move by the reported distance");
                        }
                    }
                    else
                    {
                        double frac = 0.02 + 0.96 * u[1].get<double>();
                        double d = c.next_dist * frac;
                        if (!(d > 0) || !std::isfinite(d))
                        {
                            // infinite distance: move a finite amount
                            d = g.scale * 0.01 * (0.1 + u[1].get<double>());
                            if (std::isfinite(c.next_dist) && !(d < c.next_dist))
                                d = c.next_dist * 0.5;
                        }
                        if (d > 0 && (d < c.next_dist || !c.next_boundary))
                        {
                            v.move_internal(d);
                            c.next_dist -= d;
                            record(s, kind, 0, d);
                            check_sync(s, "move_internal");
                        }
                    }
                    break;
                }
                case 4: {  // cross_boundary
                    auto v = view(s);
                    bool reversed = c.reversed_after_cross;
                    v.cross_boundary();
                    c.reversed_after_cross = false;
                    if (reversed)
                    {
                        // see known finding: the navigator keeps the volume;
                        // whatever follows is desynchronised, so this client
                        // starts again afterwards
                        c.failed = true;
                    }
                    c.pending_cross = false;
                    c.has_next = false;
                    c.failed = v.failed() || reversed;
                    ++c.crossings;
                    record(s, kind, 0, 0);
                    if (reversed)
                        rr.probe("reversal_after_crossing");
                    if (ref && c03)
                    {
                        double pos[3] = {v.pos()[0], v.pos()[1], v.pos()[2]};
                        ld x[3];
                        ld d4 = gap / 4;
                        for (int k = 0; k < 3; ++k)
                            x[k] = pos[k] + d4 * (ld)v.dir()[k];
                        RefPath p = ref->locate(x);
                        ld clear = ref->clearance(x, p);
                        ld xb[3] = {pos[0], pos[1], pos[2]};
                        // more than one surface through the crossing point
                        // (corner, coincident faces): not judged
                        int nsurf = ref->surfaces_near(xb, p, gap);
                        {
                            // also along the path the track came from
                            ld xm[3];
                            for (int k = 0; k < 3; ++k)
                                xm[k] = pos[k] - d4 * (ld)v.dir()[k];
                            RefPath pm = ref->locate(xm);
                            nsurf = std::max(nsurf, ref->surfaces_near(xb, pm, gap));
                        }
                        if (!p.valid || clear < gap / 32 || nsurf > 1)
                        {
                            rr.count("skipped_ill_conditioned");
                            c.failed = true;  // destination unknown: restart client
                            break;
                        }
                        rr.count("crossing_checks");
                        if (p.lv.size() > 1)
                            rr.probe("crossing_into_nested_universe");
                        if (v.failed())
                        {
                            violate("C03",
                                    "crossing-failed",
                                    "crossing-failed",
                                    "cross_boundary failed at " + fmt3(pos) + " heading into "
                                        + p.str());
                            break;
                        }
                        std::uint32_t got = v.is_outside() ? kNoVol : v.volume_id().get();
                        std::uint32_t want = p.outside ? kNoVol : p.leaf;
                        if (got != want)
                        {
                            double dd[3] = {v.dir()[0], v.dir()[1], v.dir()[2]};
                            bool rev = reversed;
                            violate("C03",
                                    rev ? "reversal-after-crossing-keeps-volume"
                                        : "crossed-into-wrong-volume",
                                    rev ? "reversal-after-crossing-keeps-volume"
                                        : "crossed-into-wrong-volume",
                                    "after cross_boundary at " + fmt3(pos) + " dir " + fmt3(dd)
                                        + " the navigator is in volume " + std::to_string((int)got)
                                        + " but the ray enters " + std::to_string((int)want) + " "
                                        + p.str());
                        }
                        if (!v.is_on_boundary())
                            violate("C03",
                                    "not-on-boundary-after-cross",
                                    "not-on-boundary-after-cross",
                                    "is_on_boundary() is false right after cross_boundary");
                    }
                    break;
                }
                case 5: {  // set_dir
                    double d[3];
                    Rng r(mix64((std::uint64_t)(u[0].get<double>() * 1e15)) ^ 99);
                    r.isotropic(d);
                    auto v = view(s);
                    if (u[1].get<double>() < 0.2)
                    {
                        // exactly reverse
                        for (int k = 0; k < 3; ++k)
                            d[k] = -v.dir()[k];
                    }
                    bool onb = v.is_on_boundary();
                    v.set_dir({d[0], d[1], d[2]});
                    c.has_next = false;
                    record(s, kind, d[0], d[1]);
                    if (onb)
                        rr.probe(c.pending_cross ? "set_dir_on_boundary_before_cross"
                                                 : "set_dir_on_boundary_after_cross");
                    c.ref_reversed = false;
                    if (onb && !c.pending_cross && ref && c03)
                    {
                        // Does the new direction leave the current volume
                        // through the very surface the track sits on?
                        ld y[3];
                        for (int k = 0; k < 3; ++k)
                            y[k] = (ld)v.pos()[k] + (gap / 4) * (ld)d[k];
                        RefPath p = ref->locate(y);
                        std::uint32_t navvol = v.is_outside() ? kNoVol : v.volume_id().get();
                        int nsurf_here = 0;
                        {
                            ld xh[3] = {v.pos()[0], v.pos()[1], v.pos()[2]};
                            ld ym[3];
                            for (int k = 0; k < 3; ++k)
                                ym[k] = xh[k] - (gap / 4) * (ld)d[k];
                            RefPath pm = ref->locate(ym);
                            nsurf_here = std::max(ref->surfaces_near(xh, p, gap),
                                                  ref->surfaces_near(xh, pm, gap));
                        }
                        if (!p.valid || ref->clearance(y, p) < gap / 32 || nsurf_here > 1)
                        {
                            // the reference cannot tell on which side the new
                            // direction points: stop judging this client
                            rr.count("skipped_unclean_set_dir_on_boundary");
                            c.failed = true;
                        }
                        else if ((p.outside ? kNoVol : p.leaf) != navvol)
                        {
                            c.ref_reversed = true;
                            bool rot = false;
                            ld x[3] = {v.pos()[0], v.pos()[1], v.pos()[2]};
                            int sl = ref->surface_level_at(x, p, gap / 100, &rot);
                            c.ref_reversed_info = std::string("surface level ") + std::to_string(sl)
                                                  + " of " + std::to_string(p.lv.size())
                                                  + (rot ? " rotated-daughter-below" : "");
                            rr.probe("post_cross_dir_points_back");
                        }
                    }
                    if (judge && c03)
                    {
                        for (int k = 0; k < 3; ++k)
                            if (std::fabs(v.dir()[k] - d[k]) > 1e-12)
                                violate("C03",
                                        "direction-not-set",
                                        "direction-not-set",
                                        "dir() differs from the direction just set");
                        for (int k = 0; k < 3; ++k)
                            if (v.pos()[k] != self_before.pos[k])
                                violate("C03",
                                        "set-dir-moved-track",
                                        "set-dir-moved-track",
                                        "set_dir changed the position");
                    }
                    break;
                }
                case 6: {  // move_internal(pos) within the safety sphere
                    auto v = view(s);
                    double sf = v.find_safety();
                    double d[3];
                    Rng r(mix64((std::uint64_t)(u[0].get<double>() * 1e15)) ^ 55);
                    r.isotropic(d);
                    double len = sf * 0.9 * u[1].get<double>();
                    if (len > 0 && std::isfinite(len))
                    {
                        Real3 np{v.pos()[0] + len * d[0], v.pos()[1] + len * d[1], v.pos()[2] + len * d[2]};
                        v.move_internal(np);
                        c.has_next = false;
                        record(s, kind, len, sf);
                        check_sync(s, "move_internal(pos)");
                    }
                    break;
                }
                case 7: {  // safety (C11)
                    auto v = view(s);
                    double sf = v.find_safety();
                    record(s, kind, sf, 0);
                    if (ref && c11)
                    {
                        double pos[3] = {v.pos()[0], v.pos()[1], v.pos()[2]};
                        ld clear;
                        RefPath cur = refpath_at(pos, &clear);
                        if (!cur.valid || clear < gap)
                        {
                            rr.count("skipped_near_surface");
                            break;
                        }
                        rr.count("safety_checks");
                        if (!(sf >= 0) || std::isnan(sf))
                            violate("C11",
                                    "negative-safety",
                                    "negative-safety",
                                    "find_safety returned " + std::to_string(sf));
                        if (sf > 0)
                            rr.probe("nonzero_safety");
                        Rng r(mix64((std::uint64_t)(u[0].get<double>() * 1e15)) ^ 11);
                        ld x[3] = {pos[0], pos[1], pos[2]};
                        double save[3] = {v.dir()[0], v.dir()[1], v.dir()[2]};
                        for (int t = 0; t < 24 && sf > 0 && std::isfinite(sf); ++t)
                        {
                            double d[3];
                            r.isotropic(d);
                            ld w[3] = {d[0], d[1], d[2]};
                            // (a) a sphere of radius safety holds only this volume
                            ld y[3];
                            ld rad = (ld)sf * (1 - 1e-6L) - 2 * tol;
                            if (rad > 0)
                            {
                                for (int k = 0; k < 3; ++k)
                                    y[k] = x[k] + rad * w[k];
                                RefPath q = ref->locate(y);
                                if (q.valid && q != cur && ref->clearance(y, q) > gap / 100)
                                {
                                    std::ostringstream os;
                                    os.precision(17);
                                    os << "safety " << sf << " at " << fmt3(pos) << " in "
                                       << cur.str() << " but a point at distance " << (double)rad
                                       << " along " << fmt3(d) << " lies in " << q.str();
                                    violate("C11", "safety-overestimates", "safety-overestimates", os.str());
                                }
                            }
                            // (b) the navigator itself reports no boundary closer than the safety
                            if (t < 8)
                            {
                                v.set_dir({d[0], d[1], d[2]});
                                Propagation pr = v.find_next_step();
                                if (pr.boundary && pr.distance < sf * (1 - 1e-9) - 2 * tol)
                                {
                                    std::ostringstream os;
                                    os.precision(17);
                                    os << "safety " << sf << " at " << fmt3(pos)
                                       << " exceeds the navigator's own distance " << pr.distance
                                       << " along " << fmt3(d);
                                    violate("C11",
                                            "safety-exceeds-distance",
                                            "safety-exceeds-distance",
                                            os.str());
                                }
                            }
                        }
                        v.set_dir({save[0], save[1], save[2]});
                        c.has_next = false;
                    }
                    break;
                }
                case 8: {  // copy state from another slot with a new direction
                    int src = (s + 1 + (int)(u[0].get<double>() * (nslots - 1))) % nslots;
                    double d[3];
                    Rng r(mix64((std::uint64_t)(u[1].get<double>() * 1e15)) ^ 33);
                    r.isotropic(d);
                    auto vs = view(src);
                    auto v = view(s);
                    v = OrangeTrackView::DetailedInitializer{vs, {d[0], d[1], d[2]}};
                    c = cl[src];
                    c.has_next = false;
                    record(s, kind, src, d[0]);
                    if (judge && c03)
                    {
                        Snap a = snap(src), b = snap(s);
                        if (std::memcmp(a.pos, b.pos, sizeof(a.pos)) != 0 || a.vol != b.vol
                            || a.on_boundary != b.on_boundary)
                            violate("C03",
                                    "copy-differs-from-source",
                                    "copy-differs-from-source",
                                    "a state initialised from another track differs from it");
                    }
                    check_sync(s, "copy_from");
                    break;
                }
            }
            // ---- isolation: other clients must be untouched ----
            if (judge && nslots > 1)
            {
                for (int i = 0; i < nslots; ++i)
                {
                    if (i == s)
                        continue;
                    if (!(snap(i) == before[i]))
                        violate("C03",
                                "other-slot-disturbed",
                                "other-slot-disturbed",
                                std::string("operation ") + kOpNames[kind] + " on slot "
                                    + std::to_string(s) + " changed the state of slot "
                                    + std::to_string(i));
                }
            }
            // bounded number of crossings for a straight ray is implied by the
            // finite surface count; guard against livelock here
            if (c.crossings > 100000)
            {
                violate("C03", "endless-crossings", "endless-crossings", "more than 1e5 crossings");
                break;
            }
        }
        return out;
    }

    //-----------------------------------------------------------------------//
    //! Pre-compute init positions (so that two runs on different params use
    //! the same points): returns plan with "pos" added to the init ops
    json materialise_inits(json const& plan, GeoUnderTest& g) const
    {
        json p = plan;
        ld gap = kGapFactor * std::max(g.ref->tol_abs(), g.ref->tol_rel() * g.scale);
        for (auto& op : p["ops"])
        {
            if (op.contains("pos"))
                continue;  // hand-written plan
            Rng r(mix64((std::uint64_t)(op["u"][0].get<double>() * 1e15)) ^ 1234);
            double pos[3] = {0, 0, 0};
            bool ok = false;
            for (int tries = 0; tries < 60 && !ok; ++tries)
            {
                for (int k = 0; k < 3; ++k)
                    pos[k] = r.uniform(g.lo[k], g.hi[k]);
                ld x[3] = {pos[0], pos[1], pos[2]};
                RefPath q = g.ref->locate(x);
                ok = q.valid && !q.outside && g.ref->clearance(x, q) > 10 * gap;
            }
            op["pos"] = {pos[0], pos[1], pos[2]};
            op["pos_ok"] = ok;
        }
        return p;
    }

    RunResult execute(json const& plan_in) const override
    {
        RunResult rr;
        std::string property = plan_in.at("property");
        try
        {
            GeoUnderTest g;
            OrangeInput inp = load_geometry_input(plan_in.at("geometry"), &g.gstats);
            g.ref = std::make_unique<RefGeo>(inp);
            OrangeInput inp_copy = inp;
            g.params = std::make_shared<OrangeParams>(std::move(inp_copy));
            set_bounds(g);
            if (!g.ref->supported())
            {
                rr.count("unsupported_geometry");
                rr.sample = {{"geometry", plan_in["geometry"]}, {"skipped", g.ref->unsupported_reason()}};
                return rr;
            }
            json plan = materialise_inits(plan_in, g);
            // C19 compares two un-judged runs (judging taints clients using
            // the reference, which would change the op mapping)
            NavRun a = run_ops(plan, g, property != "C19", rr, property);
            rr.hash = a.hash.value();

            if (property == "C19")
            {
                // JSON round trip through the simulated stream layer
                IoFaults io;
                json const& ij = plan.at("io");
                io.write_chunk = ij.value("write_chunk", 7);
                io.read_chunk = ij.value("read_chunk", 5);
                io.seed = ij.value("seed", 1ull);
                io.comma_locale = ij.value("comma_locale", false);
                std::string why;
                OrangeInput back;
                IoStats ios;
                bool ok = roundtrip_through_stream(inp, io, &back, &ios, &why);
                rr.fault("io_short_write", ios.short_writes);
                rr.fault("io_short_read", ios.short_reads);
                if (io.comma_locale)
                    rr.fault("comma_locale");
                if (!ok)
                {
                    rr.violate("C19", "roundtrip-failed", "roundtrip-failed", why);
                }
                else
                {
                    std::string diff = compare_inputs(inp, back);
                    rr.count("structural_comparisons");
                    if (!diff.empty())
                        rr.violate("C19",
                                   "input-differs-after-roundtrip",
                                   "input-differs-after-roundtrip:" + diff.substr(0, diff.find(':')),
                                   "geometry input differs after JSON write+read: " + diff);
                    GeoUnderTest g2;
                    g2.params = std::make_shared<OrangeParams>(std::move(back));
                    set_bounds(g2);
                    RunResult dummy;
                    NavRun b = run_ops(plan, g2, false, dummy, property);
                    rr.count("navigation_histories_compared");
                    if (b.hash.value() != a.hash.value())
                        rr.violate("C19",
                                   "navigation-differs-after-roundtrip",
                                   "navigation-differs-after-roundtrip",
                                   "the same client operations give different navigation results "
                                   "on the geometry read back from JSON");
                }
            }

            // shape / non-triviality
            Hasher sh;
            long nchecks = rr.stats.value("distance_checks", 0L) + rr.stats.value("crossing_checks", 0L);
            sh.add_str(plan["geometry"].dump());
            sh.add(nchecks);
            rr.shape = sh.value();
            rr.nontrivial = nchecks >= 5 || rr.stats.value("safety_checks", 0L) >= 3;
            if (property == "C19")
            {
                sh.add(a.hash.value());
                rr.shape = sh.value();
                rr.nontrivial = a.ops >= 10 && rr.stats.value("structural_comparisons", 0L) > 0;
            }
            rr.count("nav_ops", a.ops);
            rr.count(std::string("geo:") + plan["geometry"].value("kind", "file"));
            rr.count("gen_rotated_daughters", g.gstats.rotated_daughters);
            rr.count("gen_arrays", g.gstats.arrays);
            rr.count("gen_universes", g.gstats.units + g.gstats.arrays);
            json s;
            s["geometry"] = plan["geometry"];
            s["slots"] = plan["slots"];
            s["ops"] = plan["ops"].size();
            s["universes"] = g.ref->num_universes();
            s["volumes"] = g.ref->num_volumes();
            s["checks"] = nchecks;
            rr.sample = s;
        }
        catch (std::exception const& e)
        {
            rr.violate(property,
                       "setup-exception",
                       "setup-exception",
                       std::string("geometry construction or navigation threw: ") + e.what());
        }
        return rr;
    }

    std::vector<json> shrink(json const& plan) const override
    {
        std::vector<json> out;
        auto const& ops = plan.at("ops");
        // halves, then chunks, then singles (ddmin-like)
        std::size_t n = ops.size();
        for (std::size_t chunk = n / 2; chunk >= 1; chunk /= 2)
        {
            for (std::size_t start = 0; start < n; start += chunk)
            {
                json p = plan;
                json kept = json::array();
                for (std::size_t i = 0; i < n; ++i)
                    if (i < start || i >= start + chunk)
                        kept.push_back(ops[i]);
                if (kept.empty())
                    continue;
                p["ops"] = kept;
                out.push_back(p);
            }
            if (chunk == 1 || out.size() > 300)
                break;
        }
        if (plan["slots"].get<int>() > 1)
        {
            json p = plan;
            p["slots"] = plan["slots"].get<int>() - 1;
            out.push_back(p);
            json q = plan;
            q["slots"] = 1;
            out.push_back(q);
        }
        if (plan["geometry"].value("kind", "file") == "gen")
        {
            for (char const* key : {"max_depth", "max_objects", "max_terms"})
            {
                int v = plan["geometry"].value(key, 0);
                if (v > (std::string(key) == "max_depth" ? 0 : 1))
                {
                    json p = plan;
                    p["geometry"][key] = v - 1;
                    out.push_back(p);
                }
            }
        }
        return out;
    }

    json describe(CheckSpec const& spec) const override
    {
        json d;
        d["level"] = "exploration";
        d["rule"]
            = "Each evaluation: a geometry (a bundled .org.json file, or a seeded generated "
              "OrangeInput: decision-list volumes over random px/py/pz, centred and offset "
              "cylinders, spheres, general planes, cones, simple and general quadrics, background "
              "volumes, universes nested up to 4 levels under translations, rotations and "
              "reflections, rectangular arrays) and 1-8 clients (slots of one state) running a "
              "seeded, scheduler-interleaved sequence of init / find_next_step[(max)] / "
              "move_internal / move_to_boundary / cross_boundary / set_dir (also on boundaries, "
              "also reversing) / move_internal(pos) / find_safety / copy-initialisation, with "
              "illegal calls mapped to legal ones. After every operation the navigator's answer is "
              "compared with RefGeo (independent long-double locator built from the same input). "
              "Configurations the reference cannot call (two roots closer than 1e4*tol, grazing "
              "incidence < 1e-3, points closer than that to a surface) are counted as skipped and "
              "not judged. Non-trivial: >= 5 judged distance/crossing comparisons (or >= 3 safety "
              "comparisons); distinct = (geometry spec, number of judged comparisons).";
        d["components"] = {
            {"real",
             {"OrangeParams(OrangeInput)", "UnitInserter", "BIHBuilder/BIHTraverser",
              "OrangeTrackView", "SimpleUnitTracker", "RectArrayTracker", "LogicEvaluator",
              "SenseCalculator", "surface intersect/sense/normal/safety functors",
              "TransformVisitor", "OrangeInput JSON reader/writer (C19, file geometries)"}},
            {"stub",
             {"RefGeo (reference locator)", "geometry generator",
              "std::streambuf with short reads/writes (C19)"}}};
        d["assumptions"]
            = {"generated volumes of a unit are a partition by construction; faces sorted; "
               "internal_surfaces flag set unless the logic is a pure conjunction; bboxes left "
               "infinite; daughter universes cover all space",
               "involute surfaces are not modelled by the reference (geometries with them are "
               "skipped)",
               "near-surface / near-coincident / grazing configurations are skipped, not judged"};
        (void)spec;
        return d;
    }

    std::uint64_t default_runs(CheckSpec const& spec) const override
    {
        return spec.tier == "thorough" ? 120000 : 3000;
    }

  private:
    static constexpr std::uint32_t kNoVol = 0xffffffffu;
    static constexpr char const* kOpNames[10] = {"init",
                                                "next",
                                                "next_max",
                                                "advance",
                                                "cross",
                                                "set_dir",
                                                "move_pos",
                                                "safety",
                                                "copy_from",
                                                "next_tie"};
};

constexpr char const* WorldG::kOpNames[10];

std::unique_ptr<World> make_world_g()
{
    return std::make_unique<WorldG>();
}
RegisterWorld reg_g({"C03", "C11", "C19"}, &make_world_g);
}  // namespace
}  // namespace vsim
