#include "GeoGen.hh"

#include <algorithm>
#include <cmath>
#include <fstream>
#include <map>

#include "corecel/math/ArrayUtils.hh"
#include "orange/OrangeInputIO.json.hh"
#include "orange/OrangeTypes.hh"
#include "orange/surf/VariantSurface.hh"
#include "orange/transform/VariantTransform.hh"

using namespace celeritas;

namespace vsim
{
namespace
{
using Logic = std::vector<logic_int>;

//! A region expressed over *unit-local surface ids* (converted to face
//! indices when the volume is finalised)
struct Region
{
    // postfix over tokens: surface id (outside sense) or operator token
    Logic rpn;
    bool pure_and{true};  //!< conjunction of distinct half-spaces only
};

Region half_space(int surf, bool inside)
{
    Region r;
    r.rpn.push_back(static_cast<logic_int>(surf));
    if (inside)
        r.rpn.push_back(logic::lnot);
    return r;
}

Region combine(Region a, Region const& b, logic_int op)
{
    a.rpn.insert(a.rpn.end(), b.rpn.begin(), b.rpn.end());
    a.rpn.push_back(op);
    a.pure_and = a.pure_and && b.pure_and && op == logic::land;
    return a;
}

Region negate(Region a)
{
    a.rpn.push_back(logic::lnot);
    a.pure_and = false;
    return a;
}

struct UnitBuilder
{
    UnitInput unit;
    double W;  //!< half width of the region of interest

    int add_surface(VariantSurface s)
    {
        unit.surfaces.push_back(std::move(s));
        return static_cast<int>(unit.surfaces.size()) - 1;
    }

    int add_volume(Region const& r, std::string name, bool force_internal = false)
    {
        VolumeInput v;
        v.label = Label{std::move(name)};
        // faces: sorted unique surface ids
        std::vector<int> faces;
        for (auto t : r.rpn)
            if (!logic::is_operator_token(t))
                faces.push_back(static_cast<int>(t));
        std::sort(faces.begin(), faces.end());
        bool distinct = std::adjacent_find(faces.begin(), faces.end()) == faces.end();
        faces.erase(std::unique(faces.begin(), faces.end()), faces.end());
        std::map<int, logic_int> index;
        for (std::size_t i = 0; i < faces.size(); ++i)
        {
            v.faces.push_back(LocalSurfaceId(faces[i]));
            index[faces[i]] = static_cast<logic_int>(i);
        }
        for (auto t : r.rpn)
            v.logic.push_back(logic::is_operator_token(t) ? t : index[static_cast<int>(t)]);
        bool simple = r.pure_and && distinct && !force_internal;
        v.flags = simple ? 0 : VolumeRecord::internal_surfaces;
        v.zorder = ZOrder::media;
        v.bbox = BBox::from_infinite();
        unit.volumes.push_back(std::move(v));
        return static_cast<int>(unit.volumes.size()) - 1;
    }
};

Real3 rand_unit(Rng& r)
{
    double d[3];
    r.isotropic(d);
    return {d[0], d[1], d[2]};
}

//! Random proper/improper rotation matrix (orthonormal), exact to rounding
SquareMatrixReal3 rand_rotation(Rng& r, bool allow_reflection)
{
    // Gram-Schmidt on random vectors
    Real3 a = rand_unit(r), b = rand_unit(r);
    double ab = a[0] * b[0] + a[1] * b[1] + a[2] * b[2];
    for (int k = 0; k < 3; ++k)
        b[k] -= ab * a[k];
    double bn = std::sqrt(b[0] * b[0] + b[1] * b[1] + b[2] * b[2]);
    for (int k = 0; k < 3; ++k)
        b[k] /= bn;
    Real3 c{a[1] * b[2] - a[2] * b[1], a[2] * b[0] - a[0] * b[2], a[0] * b[1] - a[1] * b[0]};
    if (allow_reflection && r.coin(0.3))
        for (int k = 0; k < 3; ++k)
            c[k] = -c[k];
    // one re-orthonormalisation pass
    auto norm = [](Real3& v) {
        double n = std::sqrt(v[0] * v[0] + v[1] * v[1] + v[2] * v[2]);
        for (int k = 0; k < 3; ++k)
            v[k] /= n;
    };
    norm(a);
    norm(b);
    norm(c);
    SquareMatrixReal3 m;
    for (int k = 0; k < 3; ++k)
    {
        m[k][0] = a[k];
        m[k][1] = b[k];
        m[k][2] = c[k];
    }
    return m;
}

//! Random surface whose zero set passes through the cube [-W, W]^3
int rand_surface(UnitBuilder& ub, Rng& r, double W, GenGeoStats& st)
{
    int kind = static_cast<int>(r.below(10));
    Real3 o{r.uniform(-0.7 * W, 0.7 * W), r.uniform(-0.7 * W, 0.7 * W), r.uniform(-0.7 * W, 0.7 * W)};
    double rad = r.uniform(0.15 * W, 0.8 * W);
    int axis = static_cast<int>(r.below(3));
    ++st.surfaces;
    switch (kind)
    {
        case 0: {
            double p = r.uniform(-0.8 * W, 0.8 * W);
            if (axis == 0)
                return ub.add_surface(PlaneAligned<Axis::x>(p));
            if (axis == 1)
                return ub.add_surface(PlaneAligned<Axis::y>(p));
            return ub.add_surface(PlaneAligned<Axis::z>(p));
        }
        case 1: {
            if (axis == 0)
                return ub.add_surface(CylCentered<Axis::x>(rad));
            if (axis == 1)
                return ub.add_surface(CylCentered<Axis::y>(rad));
            return ub.add_surface(CylCentered<Axis::z>(rad));
        }
        case 2:
            return ub.add_surface(SphereCentered(rad));
        case 3: {
            if (axis == 0)
                return ub.add_surface(CylAligned<Axis::x>(o, rad));
            if (axis == 1)
                return ub.add_surface(CylAligned<Axis::y>(o, rad));
            return ub.add_surface(CylAligned<Axis::z>(o, rad));
        }
        case 4:
            return ub.add_surface(Plane(rand_unit(r), o));
        case 5:
            return ub.add_surface(Sphere(o, rad));
        case 6: {
            double tang = r.uniform(0.2, 1.5);
            if (axis == 0)
                return ub.add_surface(ConeAligned<Axis::x>(o, tang));
            if (axis == 1)
                return ub.add_surface(ConeAligned<Axis::y>(o, tang));
            return ub.add_surface(ConeAligned<Axis::z>(o, tang));
        }
        case 7: {
            // axis-aligned ellipsoid: sum ((x-o)/r_k)^2 = 1
            Real3 rr{r.uniform(0.2 * W, 0.8 * W), r.uniform(0.2 * W, 0.8 * W), r.uniform(0.2 * W, 0.8 * W)};
            Real3 abc, def;
            double g = -1;
            for (int k = 0; k < 3; ++k)
            {
                abc[k] = 1 / (rr[k] * rr[k]);
                def[k] = -2 * o[k] * abc[k];
                g += o[k] * o[k] * abc[k];
            }
            return ub.add_surface(SimpleQuadric(abc, def, g));
        }
        case 8: {
            // rotated ellipsoid: (R^T(x-o))^T D (R^T(x-o)) = 1
            auto R = rand_rotation(r, false);
            double D[3] = {1 / std::pow(r.uniform(0.2 * W, 0.8 * W), 2),
                           1 / std::pow(r.uniform(0.2 * W, 0.8 * W), 2),
                           1 / std::pow(r.uniform(0.2 * W, 0.8 * W), 2)};
            double M[3][3];
            for (int i = 0; i < 3; ++i)
                for (int j = 0; j < 3; ++j)
                {
                    M[i][j] = 0;
                    for (int k = 0; k < 3; ++k)
                        M[i][j] += R[i][k] * D[k] * R[j][k];
                }
            Real3 abc{M[0][0], M[1][1], M[2][2]};
            Real3 def{2 * M[0][1], 2 * M[1][2], 2 * M[0][2]};
            Real3 ghi;
            double jj = -1;
            for (int i = 0; i < 3; ++i)
            {
                ghi[i] = 0;
                for (int j = 0; j < 3; ++j)
                {
                    ghi[i] -= 2 * M[i][j] * o[j];
                    jj += o[i] * M[i][j] * o[j];
                }
            }
            return ub.add_surface(GeneralQuadric(abc, def, ghi, jj));
        }
        default: {
            // hyperboloid-ish / paraboloid simple quadric through the region
            Real3 abc{1 / (rad * rad), 1 / (rad * rad), -1 / (rad * rad)};
            int t = axis;
            std::swap(abc[t], abc[2]);
            Real3 def;
            double g = -r.uniform(0.05, 0.5);
            for (int k = 0; k < 3; ++k)
            {
                def[k] = -2 * o[k] * abc[k];
                g += o[k] * o[k] * abc[k];
            }
            return ub.add_surface(SimpleQuadric(abc, def, g));
        }
    }
}

Region rand_region(UnitBuilder& ub, Rng& r, double W, int max_terms, GenGeoStats& st)
{
    int n = 1 + static_cast<int>(r.below(max_terms));
    Region reg = half_space(rand_surface(ub, r, W, st), r.coin(0.7));
    for (int i = 1; i < n; ++i)
    {
        Region h = half_space(rand_surface(ub, r, W, st), r.coin(0.6));
        reg = combine(std::move(reg), h, r.coin(0.7) ? logic::land : logic::lor);
    }
    if (r.coin(0.1))
        reg = negate(std::move(reg));
    return reg;
}

struct GenState
{
    std::vector<VariantUniverseInput> universes;
    GenGeoStats stats;
};

// Forward
int gen_unit(GenState& gs, Rng& r, json const& spec, int depth, double W, bool top);

int gen_array(GenState& gs, Rng& r, json const& spec, int depth, double const lo[3], double const hi[3])
{
    // reserve our index first so that ids are stable
    int my = gs.universes.size();
    gs.universes.emplace_back(RectArrayInput{});
    RectArrayInput arr;
    arr.label = Label{"arr" + std::to_string(my)};
    int dims[3];
    for (int k = 0; k < 3; ++k)
    {
        dims[k] = 1 + static_cast<int>(r.below(3));
        // grid slightly larger than the parent cell box
        double a = lo[k] - 0.01 * (hi[k] - lo[k]), b = hi[k] + 0.01 * (hi[k] - lo[k]);
        arr.grid[k].push_back(a);
        std::vector<double> cuts;
        for (int i = 1; i < dims[k]; ++i)
            cuts.push_back(r.uniform(a + 0.15 * (b - a), b - 0.15 * (b - a)));
        std::sort(cuts.begin(), cuts.end());
        for (double c : cuts)
            if (c - arr.grid[k].back() > 0.05 * (b - a))
                arr.grid[k].push_back(c);
        arr.grid[k].push_back(b);
        dims[k] = arr.grid[k].size() - 1;
    }
    // a few distinct daughter universes, reused among the cells
    std::vector<int> pool;
    int npool = 1 + static_cast<int>(r.below(2));
    double Wc = 0;
    for (int k = 0; k < 3; ++k)
        Wc = std::max(Wc, hi[k] - lo[k]);
    for (int i = 0; i < npool; ++i)
        pool.push_back(gen_unit(gs, r, spec, depth + 1, 0.5 * Wc, false));
    for (int i = 0; i < dims[0]; ++i)
        for (int j = 0; j < dims[1]; ++j)
            for (int k = 0; k < dims[2]; ++k)
            {
                DaughterInput d;
                d.universe_id = UniverseId(pool[r.below(pool.size())]);
                Real3 c{0.5 * (arr.grid[0][i] + arr.grid[0][i + 1]),
                        0.5 * (arr.grid[1][j] + arr.grid[1][j + 1]),
                        0.5 * (arr.grid[2][k] + arr.grid[2][k + 1])};
                // a daughter universe covers all space, so it may also sit
                // untranslated (origin at the array origin) or anywhere else
                double u = r.uniform();
                if (u < 0.25)
                    d.transform = NoTransformation{};
                else
                    d.transform = Translation(c);
                arr.daughters.push_back(d);
            }
    ++gs.stats.arrays;
    gs.universes[my] = std::move(arr);
    return my;
}

int gen_unit(GenState& gs, Rng& r, json const& spec, int depth, double W, bool top)
{
    int my = gs.universes.size();
    gs.universes.emplace_back(UnitInput{});
    UnitBuilder ub;
    ub.W = W;
    ub.unit.label = Label{"u" + std::to_string(my)};
    int max_depth = spec.value("max_depth", 2);
    int nobj = 1 + static_cast<int>(r.below(spec.value("max_objects", 4)));
    int max_terms = spec.value("max_terms", 3);

    Region box;
    if (top)
    {
        int s[6];
        s[0] = ub.add_surface(PlaneAligned<Axis::x>(-W));
        s[1] = ub.add_surface(PlaneAligned<Axis::x>(W));
        s[2] = ub.add_surface(PlaneAligned<Axis::y>(-W));
        s[3] = ub.add_surface(PlaneAligned<Axis::y>(W));
        s[4] = ub.add_surface(PlaneAligned<Axis::z>(-W));
        s[5] = ub.add_surface(PlaneAligned<Axis::z>(W));
        box = half_space(s[0], false);
        box = combine(box, half_space(s[1], true), logic::land);
        box = combine(box, half_space(s[2], false), logic::land);
        box = combine(box, half_space(s[3], true), logic::land);
        box = combine(box, half_space(s[4], false), logic::land);
        box = combine(box, half_space(s[5], true), logic::land);
        int ext = ub.add_volume(negate(box), "[EXTERIOR]", true);
        ub.unit.volumes[ext].zorder = ZOrder::exterior;
        ub.unit.bbox = BBox{{-W, -W, -W}, {W, W, W}};
    }
    else
    {
        VolumeInput ext;
        ext.label = Label{"[EXTERIOR]"};
        ext.logic = {logic::ltrue, logic::lnot};
        ext.flags = VolumeRecord::implicit_vol;
        ext.zorder = ZOrder::implicit_exterior;
        ub.unit.volumes.push_back(ext);
        ub.unit.bbox = BBox::from_infinite();
    }

    // Decision list: V_i = R_i & ~R_1 & ... & ~R_{i-1} (& box at top level)
    std::vector<Region> regions;
    struct Pending
    {
        int vol;
        bool boxlike;
        double lo[3], hi[3];
    };
    std::vector<Pending> cells;
    for (int i = 0; i < nobj; ++i)
    {
        Region ri;
        Pending pc{};
        pc.boxlike = false;
        if (r.coin(0.3))
        {
            // an axis-aligned box region (can hold a rect array)
            pc.boxlike = true;
            int s[6];
            for (int k = 0; k < 3; ++k)
            {
                double c = r.uniform(-0.5 * W, 0.5 * W), h = r.uniform(0.15 * W, 0.45 * W);
                pc.lo[k] = c - h;
                pc.hi[k] = c + h;
            }
            s[0] = ub.add_surface(PlaneAligned<Axis::x>(pc.lo[0]));
            s[1] = ub.add_surface(PlaneAligned<Axis::x>(pc.hi[0]));
            s[2] = ub.add_surface(PlaneAligned<Axis::y>(pc.lo[1]));
            s[3] = ub.add_surface(PlaneAligned<Axis::y>(pc.hi[1]));
            s[4] = ub.add_surface(PlaneAligned<Axis::z>(pc.lo[2]));
            s[5] = ub.add_surface(PlaneAligned<Axis::z>(pc.hi[2]));
            gs.stats.surfaces += 6;
            ri = half_space(s[0], false);
            ri = combine(ri, half_space(s[1], true), logic::land);
            ri = combine(ri, half_space(s[2], false), logic::land);
            ri = combine(ri, half_space(s[3], true), logic::land);
            ri = combine(ri, half_space(s[4], false), logic::land);
            ri = combine(ri, half_space(s[5], true), logic::land);
        }
        else
        {
            ri = rand_region(ub, r, W, max_terms, gs.stats);
        }
        Region vi = ri;
        for (auto const& prev : regions)
            vi = combine(std::move(vi), negate(prev), logic::land);
        if (top)
            vi = combine(std::move(vi), box, logic::land);
        pc.vol = ub.add_volume(vi, "v" + std::to_string(my) + "_" + std::to_string(i));
        cells.push_back(pc);
        regions.push_back(std::move(ri));
        ++gs.stats.volumes;
    }
    // remainder: background volume or explicit complement
    bool use_background = r.coin(0.5);
    if (use_background)
    {
        VolumeInput bg;
        bg.label = Label{"bg" + std::to_string(my)};
        bg.logic = {logic::ltrue, logic::lnot};
        bg.flags = VolumeRecord::implicit_vol;
        // the construction API (UnitProto::build) marks every background volume
        // "simple safety" whatever its faces are: mirror that in most units
        if (r.coin(0.7))
            bg.flags |= VolumeRecord::simple_safety;
        bg.zorder = ZOrder::background;
        // precondition of the background tracker: its faces are *all* the
        // surfaces of the unit
        for (std::size_t i = 0; i < ub.unit.surfaces.size(); ++i)
            bg.faces.push_back(LocalSurfaceId(i));
        ub.unit.volumes.push_back(bg);
        ++gs.stats.backgrounds;
    }
    else
    {
        Region rem;
        bool first = true;
        for (auto const& prev : regions)
        {
            rem = first ? negate(prev) : combine(std::move(rem), negate(prev), logic::land);
            first = false;
        }
        if (top)
            rem = combine(std::move(rem), box, logic::land);
        ub.add_volume(rem, "rest" + std::to_string(my), true);
    }
    ++gs.stats.volumes;
    ++gs.stats.units;

    // daughters
    if (depth < max_depth)
    {
        for (auto const& pc : cells)
        {
            if (!r.coin(spec.value("p_daughter", 0.5)))
                continue;
            DaughterInput d;
            if (pc.boxlike && r.coin(spec.value("p_array", 0.4)))
            {
                d.universe_id = UniverseId(gen_array(gs, r, spec, depth, pc.lo, pc.hi));
                d.transform = NoTransformation{};
            }
            else
            {
                d.universe_id = UniverseId(gen_unit(gs, r, spec, depth + 1, 0.6 * W, false));
                double u = r.uniform();
                Real3 t{r.uniform(-0.3 * W, 0.3 * W), r.uniform(-0.3 * W, 0.3 * W), r.uniform(-0.3 * W, 0.3 * W)};
                if (u < 0.15)
                    d.transform = NoTransformation{};
                else if (u < 0.5)
                    d.transform = Translation(t);
                else
                {
                    d.transform = Transformation(rand_rotation(r, spec.value("reflections", true)), t);
                    ++gs.stats.rotated_daughters;
                }
            }
            ub.unit.daughter_map[LocalVolumeId(pc.vol)] = d;
            ++gs.stats.daughters;
        }
    }
    gs.stats.max_depth = std::max(gs.stats.max_depth, depth);
    gs.universes[my] = std::move(ub.unit);
    return my;
}
}  // namespace

//---------------------------------------------------------------------------//
OrangeInput generate_geometry(json const& spec, GenGeoStats* stats)
{
    GenState gs;
    Rng r(spec.at("seed").get<std::uint64_t>());
    double W = spec.value("half_width", 10.0);
    gen_unit(gs, r, spec, 0, W, true);
    OrangeInput inp;
    inp.universes = std::move(gs.universes);
    inp.tol = Tolerance<>::from_default();
    if (stats)
        *stats = gs.stats;
    return inp;
}

OrangeInput load_geometry_input(json const& geo, GenGeoStats* stats)
{
    if (geo.value("kind", "file") == "gen")
        return generate_geometry(geo, stats);
    if (geo.value("kind", "file") == "api")
        return build_api_geometry(geo, stats);
    std::ifstream f(geo.at("file").get<std::string>());
    if (!f)
        throw std::runtime_error("cannot open geometry file");
    OrangeInput inp;
    f >> inp;
    return inp;
}

}  // namespace vsim
