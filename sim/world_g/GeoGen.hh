// Geometry sources for the navigation world: bundled .org.json files and a
// seeded generator of valid OrangeInput (decision-list volumes over random
// surfaces of every supported type, background volumes, nested universes
// under translation / rotation / reflection, rectangular arrays).
#pragma once

#include <nlohmann/json.hpp>

#include "orange/OrangeInput.hh"

#include "core/Rng.hh"

namespace vsim
{
using json = nlohmann::json;

struct GenGeoStats
{
    int units{0}, arrays{0}, volumes{0}, surfaces{0}, daughters{0}, rotated_daughters{0},
        backgrounds{0}, max_depth{0};
};

//! spec: {kind:"gen", seed, half_width, max_depth, max_objects, max_terms, p_daughter, p_array}
celeritas::OrangeInput generate_geometry(json const& spec, GenGeoStats* stats = nullptr);

//! spec: {kind:"api", seed, half_width, max_depth}: object tree built by the
//! construction API (orangeinp) and converted by the real InputBuilder
celeritas::OrangeInput build_api_geometry(json const& spec, GenGeoStats* stats = nullptr);

//! spec: {kind:"file", file} or a generator spec
celeritas::OrangeInput load_geometry_input(json const& geo, GenGeoStats* stats = nullptr);
}  // namespace vsim
