// World G, field propagation (C08): clients propagate charged particles through
// a uniform magnetic field with the real FieldPropagator / FieldDriver /
// steppers over the real navigator.  The plan decides how a path is cut into
// successive propagate(step_i) calls, the FieldDriverOptions and the
// integrator.  Every call is judged against the analytic helix and RefGeo.
#include <cmath>
#include <cstring>
#include <iostream>
#include <fstream>
#include <sstream>

#include "corecel/data/CollectionStateStore.hh"
#include "orange/OrangeData.hh"
#include "orange/OrangeParams.hh"
#include "orange/OrangeTrackView.hh"
#include "celeritas/Constants.hh"
#include "celeritas/Quantities.hh"
#include "celeritas/field/DormandPrinceStepper.hh"
#include "celeritas/field/FieldDriver.hh"
#include "celeritas/field/FieldDriverOptions.hh"
#include "celeritas/field/MakeMagFieldPropagator.hh"
#include "celeritas/field/detail/FieldUtils.hh"
#include "celeritas/field/MakeMagFieldPropagator.hh"
#include "celeritas/field/RZMapField.hh"
#include "celeritas/field/RZMapFieldInput.hh"
#include "celeritas/field/RZMapFieldParams.hh"
#include "celeritas/field/RungeKuttaStepper.hh"
#include "celeritas/field/UniformField.hh"
#include "celeritas/field/ZHelixStepper.hh"
#include "celeritas/field/UniformZField.hh"
#include "celeritas/phys/PDGNumber.hh"
#include "celeritas/phys/ParticleData.hh"
#include "celeritas/phys/ParticleParams.hh"
#include "celeritas/phys/ParticleTrackView.hh"

#include "core/World.hh"
#include "ref/RefGeo.hh"
#include "world_g/GeoGen.hh"

using namespace celeritas;

namespace vsim
{
namespace
{
char const* const kFiles[] = {"test/geocel/data/two-boxes.org.json",
                              "test/geocel/data/three-spheres.org.json",
                              "test/geocel/data/four-steel-slabs.org.json",
                              "test/geocel/data/field-layers.org.json",
                              "test/geocel/data/simple-cms.org.json",
                              "test/geocel/data/testem15.org.json",
                              "test/geocel/data/testem3-flat.org.json",
                              "test/orange/data/five-volumes.org.json",
                              "test/orange/data/rect-array.org.json",
                              "test/orange/data/nested-rect-arrays.org.json",
                              "test/orange/data/inputbuilder-hierarchy.org.json",
                              "test/orange/data/inputbuilder-universes.org.json",
                              "test/orange/data/inputbuilder-globalspheres.org.json",
                              "test/orange/data/inputbuilder-bgspheres.org.json"};

std::string fmt3(double const v[3])
{
    std::ostringstream os;
    os.precision(17);
    os << "(" << v[0] << "," << v[1] << "," << v[2] << ")";
    return os.str();
}

struct Helix
{
    ld x0[3], par[3], perp[3], cross[3];  // y_par, y_perp, y_perp x b
    ld k;  // signed curvature rate
    void pos(ld s, ld out[3]) const
    {
        ld sn, cs1;
        if (std::fabs(k * s) < 1e-6L)
        {
            // series to avoid cancellation
            ld ks = k * s;
            sn = s * (1 - ks * ks / 6);
            cs1 = s * ks / 2 * (1 - ks * ks / 12);
        }
        else
        {
            sn = std::sin(k * s) / k;
            cs1 = (1 - std::cos(k * s)) / k;
        }
        for (int i = 0; i < 3; ++i)
            out[i] = x0[i] + par[i] * s + perp[i] * sn + cross[i] * cs1;
    }
    void dir(ld s, ld out[3]) const
    {
        for (int i = 0; i < 3; ++i)
            out[i] = par[i] + perp[i] * std::cos(k * s) + cross[i] * std::sin(k * s);
    }
};

Helix make_helix(double const pos[3], double const dir[3], double const bfield[3], ld k_per_b)
{
    Helix h;
    ld bn = std::sqrt((ld)bfield[0] * bfield[0] + (ld)bfield[1] * bfield[1]
                      + (ld)bfield[2] * bfield[2]);
    ld b[3] = {bfield[0] / bn, bfield[1] / bn, bfield[2] / bn};
    ld dot = dir[0] * b[0] + dir[1] * b[1] + dir[2] * b[2];
    for (int i = 0; i < 3; ++i)
    {
        h.x0[i] = pos[i];
        h.par[i] = dot * b[i];
        h.perp[i] = dir[i] - h.par[i];
    }
    h.cross[0] = h.perp[1] * b[2] - h.perp[2] * b[1];
    h.cross[1] = h.perp[2] * b[0] - h.perp[0] * b[2];
    h.cross[2] = h.perp[0] * b[1] - h.perp[1] * b[0];
    h.k = k_per_b * bn;
    return h;
}

std::shared_ptr<RZMapFieldParams> const& cms_field_map()
{
    static std::shared_ptr<RZMapFieldParams> p = [] {
        RZMapFieldInput inp;
        std::ifstream f(std::string(VERIF_REPO_DIR) + "/test/celeritas/data/cms-tiny.field.json");
        f >> inp;
        return std::make_shared<RZMapFieldParams>(inp);
    }();
    return p;
}

// The propagator's view of the navigator: forwards to the real OrangeTrackView
// and records what the propagator asked and where it moved.
struct GeoEvent
{
    char kind;  // 'd' set_dir, 'f' find_next_step, 'i' move_internal, 'b' move_to_boundary
    double a[3];
    double dist;
    bool boundary;
};
class GeoProxy
{
  public:
    GeoProxy(OrangeTrackView& g, std::vector<GeoEvent>& ev) : g_(g), ev_(ev) {}
    Real3 const& pos() const { return g_.pos(); }
    Real3 const& dir() const { return g_.dir(); }
    bool is_on_boundary() const { return g_.is_on_boundary(); }
    void set_dir(Real3 const& d)
    {
        ev_.push_back({'d', {d[0], d[1], d[2]}, 0, false});
        g_.set_dir(d);
    }
    Propagation find_next_step(real_type mx)
    {
        Propagation p = g_.find_next_step(mx);
        ev_.push_back({'f', {mx, 0, 0}, p.distance, p.boundary});
        return p;
    }
    void move_internal(Real3 const& p)
    {
        ev_.push_back({'i', {p[0], p[1], p[2]}, 0, false});
        g_.move_internal(p);
    }
    void move_to_boundary()
    {
        g_.move_to_boundary();
        ev_.push_back({'b', {g_.pos()[0], g_.pos()[1], g_.pos()[2]}, 0, true});
    }

  private:
    OrangeTrackView& g_;
    std::vector<GeoEvent>& ev_;
};

// Diagnostic for replays (VSIM_TRACE): the bare driver from the same start
template<template<class> class StepperT, class FieldT>
void trace_driver(FieldT const& field, FieldDriverOptions const& fopt, units::ElementaryCharge q,
                  OdeState state, double step, Helix const& hx)
{
    auto stepper = make_mag_field_stepper<StepperT>(field, q);
    FieldDriver driver{fopt, stepper};
    double s = 0;
    std::cerr.precision(6);
    for (int i = 0; i < 400 && s < step; ++i)
    {
        auto sub = driver.advance(step - s, state);
        s += sub.step;
        state = sub.state;
        ld y[3];
        hx.pos(s, y);
        double d = std::sqrt((double)((y[0] - state.pos[0]) * (y[0] - state.pos[0])
                                      + (y[1] - state.pos[1]) * (y[1] - state.pos[1])
                                      + (y[2] - state.pos[2]) * (y[2] - state.pos[2])));
        std::cerr << "    driver substep " << i << " h=" << sub.step << " phase=" << sub.step * (double)std::fabs(hx.k)
                  << " s=" << s << " off-helix=" << d << " |p|=" << norm(state.mom) << "\n";
    }
}

class WorldG8 : public World
{
  public:
    std::string name() const override { return "G8 (field propagation)"; }

    json make_plan(CheckSpec const& spec, std::uint64_t index) const override
    {
        Rng root(mix64(spec.seed) ^ mix64(index * 0x9e3779b97f4a7c15ull + 808));
        Rng rg = root.sub("geom");
        Rng rp = root.sub("plan");
        bool thorough = spec.tier == "thorough";
        json plan;
        plan["world"] = "G8";
        plan["property"] = spec.property;
        plan["seed"] = spec.seed;
        plan["index"] = index;
        json geo;
        double scale_hint = 20;
        if (rg.coin(0.5))
        {
            geo["kind"] = "gen";
            geo["seed"] = (std::uint64_t)rg.next();
            geo["half_width"] = rg.coin(0.5) ? 10.0 : rg.log_uniform(1.0, 200.0);
            geo["max_depth"] = (int)rg.below(3);
            geo["max_objects"] = 1 + (int)rg.below(4);
            geo["max_terms"] = 1 + (int)rg.below(3);
            geo["p_daughter"] = rg.uniform(0.2, 0.8);
            geo["p_array"] = rg.uniform(0.0, 0.5);
            scale_hint = 2 * geo["half_width"].get<double>();
        }
        else
        {
            geo["kind"] = "file";
            geo["file"] = std::string(VERIF_REPO_DIR) + "/"
                          + kFiles[rg.below(sizeof(kFiles) / sizeof(kFiles[0]))];
        }
        plan["geometry"] = geo;
        // field and driver
        double b[3];
        rp.isotropic(b);
        double mag = rp.log_uniform(1e-3, 20.0);  // tesla
        bool zfield = rp.coin(0.25);
        if (zfield)
        {
            b[0] = b[1] = 0;
            b[2] = rp.coin(0.5) ? 1 : -1;
        }
        plan["field"] = {b[0] * mag, b[1] * mag, b[2] * mag};
        // one plan in eight: the CMS field map (r-z grid) on the simple-cms geometry
        bool rzmap = rp.coin(0.125);
        if (rzmap)
        {
            plan["field_kind"] = "rzmap";
            json g;
            g["kind"] = "file";
            g["file"] = std::string(VERIF_REPO_DIR) + "/test/geocel/data/simple-cms.org.json";
            plan["geometry"] = g;
            scale_hint = 2000;
            zfield = false;
        }
        static char const* const steppers[] = {"dormand_prince", "runge_kutta", "zhelix"};
        std::string st = steppers[rp.below(zfield ? 3 : 2)];
        plan["stepper"] = st;
        json d;
        bool defaults = rp.coin(0.3);
        d["defaults"] = defaults;
        if (!defaults)
        {
            double L = scale_hint;
            double minstep = L * rp.log_uniform(1e-9, 1e-6);
            d["minimum_step"] = minstep;
            d["delta_intersection"] = minstep * rp.log_uniform(2, 30);
            d["delta_chord"] = L * rp.log_uniform(1e-5, 1e-2);
            d["epsilon_step"] = rp.log_uniform(1e-7, 1e-4);
            d["epsilon_rel_max"] = rp.log_uniform(1e-6, 1e-2);
            d["max_nsteps"] = 10 + (int)rp.below(200);
            d["max_substeps"] = 1 + (int)rp.below(30);
        }
        plan["driver"] = d;
        int nslots = 1 + (int)rp.below(thorough ? 4 : 2);
        plan["slots"] = nslots;
        int nops = (thorough ? 80 : 40) * nslots;
        json ops = json::array();
        for (int i = 0; i < nops; ++i)
        {
            json op;
            op["s"] = (int)rp.below(nslots);
            // 0 init, 1 propagate, 2 cross (if on boundary)
            double u = rp.uniform();
            op["k"] = u < 0.08 ? 0 : 1;
            op["u"] = {rp.uniform(), rp.uniform(), rp.uniform(), rp.uniform(), rp.uniform(), rp.uniform()};
            ops.push_back(op);
        }
        plan["ops"] = ops;
        return plan;
    }

    RunResult execute(json const& plan_in) const override
    {
        RunResult rr;
        try
        {
            GenGeoStats gs;
            OrangeInput inp = load_geometry_input(plan_in.at("geometry"), &gs);
            RefGeo ref(inp);
            if (!ref.supported())
            {
                rr.count("unsupported_geometry");
                return rr;
            }
            OrangeInput copy = inp;
            OrangeParams params(std::move(copy));
            double lo[3], hi[3], scale = 0;
            auto const& bb = params.bbox();
            for (int k = 0; k < 3; ++k)
            {
                lo[k] = std::isfinite(bb.lower()[k]) && bb.lower()[k] > -1e4 ? bb.lower()[k] : -100;
                hi[k] = std::isfinite(bb.upper()[k]) && bb.upper()[k] < 1e4 ? bb.upper()[k] : 100;
                scale = std::max(scale, hi[k] - lo[k]);
            }
            double tol = std::max(ref.tol_abs(), ref.tol_rel() * scale);

            // particles
            using namespace constants;
            ParticleParams::Input pinp;
            pinp.push_back({"electron", pdg::electron(), units::MevMass{0.5109989461},
                            units::ElementaryCharge{-1}, stable_decay_constant});
            pinp.push_back({"positron", pdg::positron(), units::MevMass{0.5109989461},
                            units::ElementaryCharge{1}, stable_decay_constant});
            pinp.push_back({"mu_minus", pdg::mu_minus(), units::MevMass{105.6583745},
                            units::ElementaryCharge{-1}, stable_decay_constant});
            pinp.push_back({"proton", pdg::proton(), units::MevMass{938.27208816},
                            units::ElementaryCharge{1}, stable_decay_constant});
            ParticleParams particles(std::move(pinp));

            int nslots = plan_in.at("slots");
            CollectionStateStore<OrangeStateData, MemSpace::host> gstate(params.host_ref(), nslots);
            CollectionStateStore<ParticleStateData, MemSpace::host> pstate(particles.host_ref(),
                                                                           nslots);
            FieldDriverOptions fopt;
            json const& dj = plan_in.at("driver");
            if (!dj.value("defaults", true))
            {
                fopt.minimum_step = dj.at("minimum_step");
                fopt.delta_intersection = dj.at("delta_intersection");
                fopt.delta_chord = dj.at("delta_chord");
                fopt.epsilon_step = dj.at("epsilon_step");
                fopt.epsilon_rel_max = dj.value("epsilon_rel_max", fopt.epsilon_rel_max);
                fopt.max_nsteps = dj.at("max_nsteps").get<int>();
                fopt.max_substeps = dj.at("max_substeps").get<int>();
            }
            validate_input(fopt);
            auto fv = plan_in.at("field").get<std::vector<double>>();
            double bnat[3] = {fv[0] * units::tesla, fv[1] * units::tesla, fv[2] * units::tesla};
            Real3 field{bnat[0], bnat[1], bnat[2]};
            std::string stepper = plan_in.value("stepper", "dormand_prince");
            bool rzmap = plan_in.value("field_kind", std::string("uniform")) == "rzmap";

            if (char const* pr = std::getenv("VSIM_PROBE"))
            {
                // diagnostic: "x,y,z,dx,dy,dz,max[,x2,y2,z2,dx2,dy2,dz2,max2]"
                std::vector<double> v;
                std::stringstream ss(pr);
                std::string tok;
                while (std::getline(ss, tok, ','))
                    v.push_back(std::stod(tok));
                OrangeTrackView g(params.host_ref(), gstate.ref(), TrackSlotId(0));
                GeoTrackInitializer gi;
                gi.pos = {v[0], v[1], v[2]};
                gi.dir = {v[3], v[4], v[5]};
                g = gi;
                std::cerr.precision(17);
                auto p1 = g.find_next_step(v[6]);
                std::cerr << "probe: vol " << g.volume_id().get() << " find_next_step(" << v[6] << ") -> "
                          << p1.distance << " boundary=" << p1.boundary << "\n";
                auto p0 = g.find_next_step();
                std::cerr << "probe: find_next_step() -> " << p0.distance << " boundary=" << p0.boundary << "\n";
                if (v.size() >= 14)
                {
                    g.move_internal(Real3{v[7], v[8], v[9]});
                    g.set_dir(Real3{v[10], v[11], v[12]});
                    auto p2 = g.find_next_step(v[13]);
                    std::cerr << "probe: after move_internal find_next_step(" << v[13] << ") -> "
                              << p2.distance << " boundary=" << p2.boundary << "\n";
                    auto p3 = g.find_next_step();
                    std::cerr << "probe: find_next_step() -> " << p3.distance << " boundary=" << p3.boundary << "\n";
                }
            }
            struct Cl
            {
                bool inited{false};
                bool dead{false};
                bool general_zhelix{false};  // ZHelixStepper outside its exact regime
            };
            std::vector<Cl> cl(nslots);
            Hasher hh;
            long ncalls = 0, nboundary = 0, nloop = 0, nfull = 0, nbump = 0;
            ld di = fopt.delta_intersection, dc = fopt.delta_chord, ms = fopt.minimum_step;
            ld eps_rel = fopt.epsilon_rel_max;

            for (auto const& op : plan_in.at("ops"))
            {
                int s = op.at("s").get<int>() % nslots;
                int kind = op.at("k");
                auto const& u = op.at("u");
                OrangeTrackView geo(params.host_ref(), gstate.ref(), TrackSlotId(s));
                ParticleTrackView par(particles.host_ref(), pstate.ref(), TrackSlotId(s));
                if (!cl[s].inited || cl[s].dead || geo.is_outside())
                    kind = 0;
                if (kind == 0)
                {
                    Rng r(mix64((std::uint64_t)(u[0].get<double>() * 1e15)) ^ 8);
                    double pos[3], dir[3];
                    bool ok = false;
                    bool general = false;
                    ParticleTrackInitializer pi;
                    if (stepper == "zhelix" && r.coin(0.75))
                    {
                        // ZHelixStepper is exact for helices whose axis is the z
                        // axis through the origin and that turn with "positive
                        // helicity" (q*Bz < 0): build such a start
                        for (int t = 0; t < 200 && !ok; ++t)
                        {
                            r.isotropic(dir);
                            double sint = std::sqrt(dir[0] * dir[0] + dir[1] * dir[1]);
                            if (sint < 1e-3)
                                continue;
                            int pid = bnat[2] > 0 ? (r.coin(0.5) ? 0 : 2) : (r.coin(0.5) ? 1 : 3);
                            double rt = r.log_uniform(0.01, 0.7) * 0.5
                                        * std::min(hi[0] - lo[0], hi[1] - lo[1]);
                            // momentum for that gyroradius: scale from a 1 MeV probe
                            pi.particle_id = ParticleId(pid);
                            pi.energy = units::MevEnergy{1.0};
                            par = pi;
                            double m = par.mass().value();
                            double p1 = par.momentum().value();
                            ld r1 = native_value_from(par.momentum())
                                    / (std::fabs(native_value_from(par.charge())) * std::fabs(bnat[2]))
                                    * sint;
                            double pneed = p1 * rt / (double)r1;
                            double e = std::sqrt(pneed * pneed + m * m) - m;
                            if (!(e > 1e-3 && e < 1e5))
                                continue;
                            pi.energy = units::MevEnergy{e};
                            par = pi;
                            ld kk = native_value_from(par.charge()) / native_value_from(par.momentum());
                            double zero[3] = {0, 0, 0};
                            Helix h0 = make_helix(zero, dir, bnat, kk);
                            pos[0] = (double)(-h0.cross[0] / h0.k);
                            pos[1] = (double)(-h0.cross[1] / h0.k);
                            pos[2] = r.uniform(lo[2], hi[2]);
                            ld x[3] = {pos[0], pos[1], pos[2]};
                            RefPath p = ref.locate(x);
                            ok = p.valid && !p.outside && ref.clearance(x, p) > 100 * (tol + di);
                        }
                        if (ok)
                            rr.count("zhelix_axis_through_origin_starts");
                    }
                    if (!ok)
                    {
                        general = stepper == "zhelix";
                        for (int t = 0; t < 80 && !ok; ++t)
                        {
                            for (int k = 0; k < 3; ++k)
                                pos[k] = r.uniform(lo[k], hi[k]);
                            ld x[3] = {pos[0], pos[1], pos[2]};
                            RefPath p = ref.locate(x);
                            ok = p.valid && !p.outside && ref.clearance(x, p) > 100 * (tol + di);
                        }
                        r.isotropic(dir);
                        pi.particle_id = ParticleId(r.below(4));
                        // gyroradius from far below to far above the geometry scale
                        pi.energy = units::MevEnergy{r.log_uniform(1e-3, 1e5)};
                        par = pi;
                    }
                    GeoTrackInitializer gi;
                    gi.pos = {pos[0], pos[1], pos[2]};
                    gi.dir = {dir[0], dir[1], dir[2]};
                    geo = gi;
                    cl[s] = Cl{};
                    cl[s].general_zhelix = general;
                    cl[s].inited = ok && !geo.failed() && !geo.is_outside();
                    rr.count("op:init");
                    continue;
                }
                // ---- propagate ----
                double pos0[3] = {geo.pos()[0], geo.pos()[1], geo.pos()[2]};
                double dir0[3] = {geo.dir()[0], geo.dir()[1], geo.dir()[2]};
                bool onb0 = geo.is_on_boundary();
                double e0 = par.energy().value();
                ld p_native = native_value_from(par.momentum());
                ld q_native = native_value_from(par.charge());
                ld k_per_b = q_native / p_native;
                Helix hx = make_helix(pos0, dir0, bnat, k_per_b);
                ld radius = 1 / std::fabs(hx.k);
                // ZHelixStepper's exact regime, decided per call from the state:
                // positive helicity (q Bz < 0) and gyration centre on the z axis.
                // Boundary hits displace the point by up to delta_intersection, so
                // the centre drifts; a centre offset c costs at most 2c of position.
                ld zhelix_centre_offset = 0;
                if (stepper == "zhelix")
                {
                    ld cx = hx.x0[0] + hx.cross[0] / hx.k, cy = hx.x0[1] + hx.cross[1] / hx.k;
                    zhelix_centre_offset = std::sqrt(cx * cx + cy * cy);
                    ld rp = radius
                            * std::sqrt((ld)(hx.perp[0] * hx.perp[0] + hx.perp[1] * hx.perp[1]
                                             + hx.perp[2] * hx.perp[2]));
                    bool helicity_ok = q_native * bnat[2] < 0;
                    cl[s].general_zhelix = !helicity_ok || zhelix_centre_offset > 1e-3L * rp;
                }
                if (rzmap)
                {
                    // local gyroradius at the start point decides the step scale
                    Real3 b0 = RZMapField{cms_field_map()->host_ref()}(geo.pos());
                    ld bm = std::sqrt((ld)b0[0] * b0[0] + (ld)b0[1] * b0[1] + (ld)b0[2] * b0[2]);
                    radius = bm > 0 ? 1 / (std::fabs(k_per_b) * bm) : 1e30L;
                }
                // requested step: from below the minimum substep to many turns
                double step;
                {
                    double v = u[0].get<double>();
                    if (v < 0.1)
                        step = (double)ms * std::exp(std::log(0.1) + u[1].get<double>() * std::log(100));
                    else if (v < 0.5)
                        step = scale * std::exp(std::log(1e-4) + u[1].get<double>() * std::log(1e4));
                    else
                        step = (double)std::min<ld>(radius, 1e3 * scale)
                               * std::exp(std::log(1e-2) + u[1].get<double>() * std::log(1e3));
                    step = std::min(step, 50 * scale);
                }
                // reference start volume (slightly ahead if on a boundary)
                ld xs[3];
                for (int k = 0; k < 3; ++k)
                    xs[k] = pos0[k] + (onb0 ? (ld)(4 * (di + tol)) * dir0[k] : 0);
                RefPath start = ref.locate(xs);
                {
                    // the reference start volume must be the one the navigator is
                    // in; otherwise (start within tolerance of a surface) the
                    // volume relations of this call are not judged
                    std::uint32_t navvol = geo.is_outside() ? 0xffffffffu : geo.volume_id().get();
                    if (!start.valid || (start.outside ? 0xffffffffu : start.leaf) != navvol
                        || ref.clearance(xs, start) < 2 * (di + tol))
                    {
                        start.valid = false;
                        rr.count("skipped_start_near_surface");
                    }
                }

                if (std::getenv("VSIM_TRACE"))
                {
                    OdeState st;
                    st.pos = geo.pos();
                    st.mom = detail::ax(par.momentum().value(), geo.dir());
                    std::cerr << "  propagate slot " << s << " step " << step << " radius "
                              << (double)radius << "\n";
                    if (stepper == "dormand_prince")
                        trace_driver<DormandPrinceStepper>(UniformField{field}, fopt, par.charge(), st, step, hx);
                    else if (stepper == "runge_kutta")
                        trace_driver<RungeKuttaStepper>(UniformField{field}, fopt, par.charge(), st, step, hx);
                    else
                        trace_driver<ZHelixStepper>(UniformZField{field[2]}, fopt, par.charge(), st, step, hx);
                    RefPath last;
                    for (int j = 0; j <= 400; ++j)
                    {
                        ld y[3];
                        hx.pos((ld)step * j / 400, y);
                        RefPath pj = ref.locate(y);
                        if (j == 0 || pj != last)
                            std::cerr << "    helix s=" << (double)((ld)step * j / 400) << " in " << pj.str()
                                      << " at (" << (double)y[0] << "," << (double)y[1] << "," << (double)y[2] << ")\n";
                        last = pj;
                    }
                }
                Propagation res;
                std::vector<GeoEvent> gev;
                GeoProxy gproxy(geo, gev);
                if (rzmap && stepper == "dormand_prince")
                {
                    auto prop = make_mag_field_propagator<DormandPrinceStepper>(
                        RZMapField{cms_field_map()->host_ref()}, fopt, par, gproxy);
                    res = prop(step);
                }
                else if (rzmap)
                {
                    auto prop = make_mag_field_propagator<RungeKuttaStepper>(
                        RZMapField{cms_field_map()->host_ref()}, fopt, par, gproxy);
                    res = prop(step);
                }
                else if (stepper == "dormand_prince")
                {
                    auto prop = make_mag_field_propagator<DormandPrinceStepper>(
                        UniformField{field}, fopt, par, gproxy);
                    res = prop(step);
                }
                else if (stepper == "runge_kutta")
                {
                    auto prop = make_mag_field_propagator<RungeKuttaStepper>(
                        UniformField{field}, fopt, par, gproxy);
                    res = prop(step);
                }
                else
                {
                    auto prop = make_mag_field_propagator<ZHelixStepper>(
                        UniformZField{field[2]}, fopt, par, gproxy);
                    res = prop(step);
                }
                if (std::getenv("VSIM_TRACE"))
                {
                    std::cerr.precision(17);
                    for (auto const& e : gev)
                    {
                        std::cerr << "    geo " << e.kind << " (" << e.a[0] << "," << e.a[1] << ","
                                  << e.a[2] << ")";
                        if (e.kind == 'f')
                            std::cerr << " -> " << e.dist << (e.boundary ? " boundary" : "");
                        if (e.kind == 'i' || e.kind == 'b')
                        {
                            ld y[3] = {e.a[0], e.a[1], e.a[2]};
                            RefPath pj = ref.locate(y);
                            std::cerr << " ref " << pj.str() << " clearance " << (double)ref.clearance(y, pj)
                                      << " vs start volume " << (double)ref.clearance(y, start);
                        }
                        std::cerr << "\n";
                    }
                }
                // reference trajectory: analytic helix, or the integrated map curve
                // The accuracy clause of the property is stated for uniform fields
                // only: in the field map there is no reference trajectory, and the
                // checks that need one (on-helix, path up to the hit) are not made.
                bool have_curve = !rzmap;
                auto curve_pos = [&](ld sq, ld out[3]) { hx.pos(sq, out); };
                // largest phase advance of one accepted substep, from the axial
                // progress between the positions the propagator moved to
                double max_phase = 0;
                {
                    ld bn = std::sqrt((ld)bnat[0] * bnat[0] + (ld)bnat[1] * bnat[1]
                                      + (ld)bnat[2] * bnat[2]);
                    ld cosb = (dir0[0] * bnat[0] + dir0[1] * bnat[1] + dir0[2] * bnat[2]) / bn;
                    if (std::fabs(cosb) > 1e-3 && !rzmap)
                    {
                        ld prev = 0;
                        for (auto const& e : gev)
                        {
                            if (e.kind != 'i' && e.kind != 'b')
                                continue;
                            ld ax = ((e.a[0] - pos0[0]) * bnat[0] + (e.a[1] - pos0[1]) * bnat[1]
                                     + (e.a[2] - pos0[2]) * bnat[2])
                                    / bn / cosb;
                            max_phase = std::max(max_phase, (double)(std::fabs(ax - prev) * std::fabs(hx.k)));
                            prev = ax;
                        }
                    }
                }
                // an accepted substep that ended exactly on a face of the start
                // volume without the navigator noticing (known finding)
                bool landed_on_face = false;
                if (start.valid)
                {
                    for (auto const& e : gev)
                    {
                        if (e.kind != 'i')
                            continue;
                        ld y[3] = {e.a[0], e.a[1], e.a[2]};
                        if (ref.clearance(y, start) < 1e-12L * scale)
                            landed_on_face = true;
                    }
                    if (landed_on_face)
                        rr.probe("substep_end_exactly_on_a_face");
                }
                bool multi_turn = max_phase > 3.2;
                if (multi_turn)
                    rr.probe("substep_spanning_more_than_half_a_turn");
                ++ncalls;
                rr.count("op:propagate");
                double pos1[3] = {geo.pos()[0], geo.pos()[1], geo.pos()[2]};
                double dir1[3] = {geo.dir()[0], geo.dir()[1], geo.dir()[2]};
                hh.add(res.distance);
                hh.add(res.boundary);
                hh.add(res.looping);
                hh.add_bytes(pos1, sizeof(pos1));
                hh.add_bytes(dir1, sizeof(dir1));
                std::ostringstream ctx;
                ctx.precision(17);
                ctx << " [from " << fmt3(pos0) << " dir " << fmt3(dir0) << (onb0 ? " (on boundary)" : "")
                    << " E=" << e0 << " pid=" << par.particle_id().get() << " step=" << step
                    << " radius=" << (double)radius << " stepper=" << stepper
                    << " -> distance=" << res.distance << " boundary=" << res.boundary
                    << " looping=" << res.looping << " pos " << fmt3(pos1) << "]";

                // (1) momentum magnitude / energy unchanged, unit direction
                if (par.energy().value() != e0)
                    rr.violate("C08", "energy-changed", "energy-changed",
                               "propagation changed the particle's energy" + ctx.str());
                double dn = std::sqrt(dir1[0] * dir1[0] + dir1[1] * dir1[1] + dir1[2] * dir1[2]);
                if (!(std::fabs(dn - 1) < 1e-10))
                    rr.violate("C08", "direction-not-unit", "direction-not-unit",
                               "final direction is not a unit vector" + ctx.str());
                // (2) distance in (0, step]
                if (!(res.distance > 0) || !(res.distance <= step * (1 + 1e-10)))
                    rr.violate("C08", "distance-out-of-range", "distance-out-of-range",
                               "returned distance is not in (0, step]" + ctx.str());
                // (3) flag == geometry state
                if (res.boundary != geo.is_on_boundary())
                    rr.violate("C08", "boundary-flag-mismatch", "boundary-flag-mismatch",
                               "returned boundary flag differs from geo.is_on_boundary()"
                                   + ctx.str());
                // (4) outcome classes
                bool full = !res.boundary && !res.looping && res.distance >= step * (1 - 1e-10);
                bool bump = !res.boundary && !res.looping && !full;
                if (res.boundary)
                    ++nboundary;
                else if (res.looping)
                    ++nloop;
                else if (full)
                    ++nfull;
                else
                    ++nbump;
                if (res.looping && res.boundary)
                    rr.violate("C08", "looping-and-boundary", "looping-and-boundary",
                               "both looping and boundary are flagged" + ctx.str());
                if (bump)
                {
                    rr.probe("bump_step");
                    // the propagator's "stuck" recovery: at most bump_distance
                    if (res.distance > (double)(0.1L * di) * (1 + 1e-9) + 1e-300)
                        rr.violate("C08",
                                   "short-step-without-flag",
                                   "short-step-without-flag",
                                   "travelled less than the requested step without boundary or "
                                   "looping flag and more than the bump distance"
                                       + ctx.str());
                }
                // (5) end point on the analytic helix
                bool off_helix = false;
                bool large_phase = false, exhausts = false;
                auto regime = [&](std::string const& base) {
                    if (multi_turn && stepper == "zhelix")
                        return base + ":substep-over-half-turn:zhelix";
                    if (landed_on_face)
                        return base + ":substep-end-exactly-on-a-face";
                    if (large_phase)
                        return base + ":delta_chord-admits-substeps-over-1-rad";
                    if (exhausts)
                        return base + ":chord-search-exhausts-max_nsteps";
                    return base;
                };
                {
                    ld s0 = res.distance;
                    ld best = std::numeric_limits<ld>::infinity();
                    ld window = res.boundary ? 4 * (di + tol) : (bump ? di : 0);
                    for (int j = -8; j <= 8; ++j)
                    {
                        ld sj = s0 + window * j / 8;
                        if (sj < 0)
                            continue;
                        ld y[3];
                        if (!have_curve)
                        {
                            best = 0;
                            break;
                        }
                        rr.count("helix_checks");
                        curve_pos(sj, y);
                        ld dd = std::sqrt((y[0] - pos1[0]) * (y[0] - pos1[0])
                                          + (y[1] - pos1[1]) * (y[1] - pos1[1])
                                          + (y[2] - pos1[2]) * (y[2] - pos1[2]));
                        best = std::min(best, dd);
                        if (window == 0)
                            break;
                    }
                    // accuracy model: relative truncation error per unit path,
                    // intercept tolerance, remainder below the minimum substep
                    // accuracy model of the driver: every integration step of
                    // length h is accepted with position error <= eps_rel*h and
                    // relative momentum error <= eps_rel; direction errors
                    // accumulate over the n steps (each at most a chord of
                    // sagitta delta_chord long) and feed into the position
                    ld hmax = std::sqrt(8 * radius * dc) + ms;
                    ld nest = 1 + (ld)res.distance / hmax;
                    // (three times that, as margin: the largest error seen on the
                    // unchanged tree outside the recorded regimes, over 3e5 plans,
                    // is 0.31 of it)
                    ld tolp = 3 * eps_rel * (ld)res.distance * (2 + nest) + 3 * (di + ms) + 8 * tol
                              + 1e-9L * scale + window / 8 + 2.5L * zhelix_centre_offset;
                    ld sinth = std::sqrt((ld)(hx.perp[0] * hx.perp[0] + hx.perp[1] * hx.perp[1]
                                              + hx.perp[2] * hx.perp[2]));
                    // regimes recorded as known findings, each under its own
                    // fingerprint (see known_findings.json):
                    //  - delta_chord admits substeps of more than 1 rad of phase
                    //    (delta_chord > R_perp (1 - cos 0.5)); the embedded error
                    //    estimate is then far below the true error
                    //  - the chord search cannot come down from the requested
                    //    step to a chord-limited one within max_nsteps halvings
                    {
                        ld rperp = radius * sinth;
                        large_phase = dc > rperp * (1 - std::cos(0.5L));
                        ld hchord = std::sqrt(8 * rperp * dc) + ms;
                        exhausts = (ld)step > hchord * std::ldexp(1.0L, (int)fopt.max_nsteps - 2);
                    }
                    double rel = (double)(best / tolp);
                    bool zh = cl[s].general_zhelix;
                    if (!zh && !large_phase && !exhausts)
                        rr.stats["max_helix_error_over_tolerance"]
                            = std::max(rr.stats.value("max_helix_error_over_tolerance", 0.0), rel);
                    // final direction: the helix tangent at the travelled length
                    if (!zh && !large_phase && !exhausts && !bump && !rzmap)
                    {
                        ld t[3];
                        hx.dir(s0, t);
                        ld dd = std::sqrt((t[0] - dir1[0]) * (t[0] - dir1[0])
                                          + (t[1] - dir1[1]) * (t[1] - dir1[1])
                                          + (t[2] - dir1[2]) * (t[2] - dir1[2]));
                        ld told = (tolp + 2 * di + window) / radius + eps_rel * (2 + nest) + 1e-9L;
                        rr.count("direction_checks");
                        rr.stats["max_direction_error_over_tolerance"] = std::max(
                            rr.stats.value("max_direction_error_over_tolerance", 0.0), (double)(dd / told));
                        // not part of the property's statement: reported as a
                        // probe only (a boundary hit closer than minimum_step
                        // commits the momentum of the whole trial substep)
                        if (dd > told)
                            rr.probe("final_direction_off_helix_tangent");
                    }
                    if (best > tolp)
                    {
                        std::ostringstream os;
                        os.precision(6);
                        os << "end point is " << (double)best
                           << " away from the analytic helix (allowed " << (double)tolp << ")";
                        rr.violate("C08",
                                   zh ? "off-helix-zhelix-stepper" : "off-helix",
                                   zh ? "off-helix:ZHelixStepper::move"
                                      : regime("off-helix"),
                                   os.str() + ctx.str());
                        off_helix = true;
                    }
                }
                // (6) consistency with the geometry (not judged for the exact-helix
                // stepper outside its exact regime: known finding, see (5))
                if (cl[s].general_zhelix)
                {
                    rr.count("zhelix_general_start_calls");
                    if (res.boundary)
                    {
                        geo.cross_boundary();
                        if (geo.failed())
                            cl[s].dead = true;
                    }
                }
                else
                {
                    ld x1[3] = {pos1[0], pos1[1], pos1[2]};
                    ld margin = 4 * (di + tol) + dc;
                    if (!res.boundary)
                    {
                        // still in the start volume (unless within tolerance of a surface)
                        RefPath p1 = ref.locate(x1);
                        ld c1 = ref.clearance(x1, p1);
                        if (start.valid && p1.valid && c1 > margin)
                        {
                            rr.count("volume_checks");
                            if (p1 != start)
                                rr.violate("C08",
                                           "left-volume-without-boundary",
                                           regime("left-volume-without-boundary"),
                                           "no boundary was flagged but the end point lies in "
                                               + p1.str() + " while the start was in "
                                               + start.str() + ctx.str());
                        }
                    }
                    else
                    {
                        // on a reference surface within the intercept tolerance
                        RefPath p1 = ref.locate(x1);
                        ld c1 = ref.clearance(x1, p1);
                        rr.count("on_boundary_checks");
                        if (c1 > 4 * (di + tol) + 1e-9L * scale)
                        {
                            std::ostringstream os;
                            os.precision(6);
                            os << "boundary flagged but the nearest surface is " << (double)c1
                               << " away";
                            rr.violate("C08", "boundary-not-on-surface", "boundary-not-on-surface",
                                       os.str() + ctx.str());
                        }
                        // the curved path up to the hit stays in the start volume,
                        // up to incursions within the chord tolerance
                        if (start.valid && !off_helix && have_curve && true)
                        {
                            int nsamp = 24;
                            for (int j = 1; j < nsamp; ++j)
                            {
                                ld sj = (ld)res.distance * j / nsamp;
                                if (sj > (ld)res.distance - margin)
                                    break;
                                ld y[3];
                                curve_pos(sj, y);
                                RefPath pj = ref.locate(y);
                                if (pj.valid && pj != start && ref.clearance(y, pj) > margin)
                                {
                                    std::ostringstream os;
                                    os.precision(17);
                                    os << "the helix passes through " << pj.str() << " at arc length "
                                       << (double)sj << " before the reported boundary";
                                    rr.violate("C08",
                                               "boundary-skipped-on-curved-path",
                                               regime("boundary-skipped-on-curved-path"),
                                               os.str() + ctx.str());
                                    break;
                                }
                            }
                        }
                        // cross and compare the new volume
                        geo.cross_boundary();
                        if (geo.failed())
                        {
                            rr.probe("crossing_failed_after_field_step");
                            cl[s].dead = true;
                        }
                        else
                        {
                            ld y[3];
                            ld ah = 8 * (di + tol);
                            for (int k = 0; k < 3; ++k)
                                y[k] = pos1[k] + ah * dir1[k];
                            RefPath pa = ref.locate(y);
                            ld yb[3];
                            for (int k = 0; k < 3; ++k)
                                yb[k] = pos1[k] - ah * dir1[k];
                            RefPath pb = ref.locate(yb);
                            // well conditioned: one surface near the hit as seen
                            // from both sides (no edge or corner)
                            if (pa.valid && pb.valid && ref.clearance(y, pa) > 2 * (di + tol)
                                && ref.surfaces_near(x1, pa, 32 * (di + tol)) <= 1
                                && ref.surfaces_near(x1, pb, 32 * (di + tol)) <= 1)
                            {
                                rr.count("crossing_checks");
                                std::uint32_t got = geo.is_outside() ? 0xffffffffu
                                                                     : geo.volume_id().get();
                                std::uint32_t want = pa.outside ? 0xffffffffu : pa.leaf;
                                if (got != want)
                                    rr.violate("C08",
                                               "crossed-into-wrong-volume",
                                               "crossed-into-wrong-volume",
                                               "after the field step hit a boundary and crossed "
                                               "it the navigator is in volume "
                                                   + std::to_string((int)got) + " but the path enters "
                                                   + pa.str() + ctx.str());
                            }
                            else
                            {
                                rr.count("skipped_ill_conditioned");
                                cl[s].dead = true;  // unknown side: restart client
                            }
                        }
                    }
                }
            }
            rr.hash = hh.value();
            Hasher sh;
            sh.add_str(plan_in["geometry"].dump());
            sh.add(nboundary);
            sh.add(nloop);
            sh.add(nfull);
            rr.shape = sh.value();
            rr.nontrivial = ncalls >= 5 && nboundary >= 1;
            rr.count("outcome:boundary", nboundary);
            rr.count("outcome:looping", nloop);
            rr.count("outcome:full_step", nfull);
            rr.count("outcome:bump", nbump);
            rr.count("stepper:" + stepper);
            rr.count(rzmap ? "field:rz_map" : "field:uniform");
            json s;
            s["geometry"] = plan_in["geometry"];
            s["field_T"] = plan_in["field"];
            s["stepper"] = stepper;
            s["driver"] = plan_in["driver"];
            s["calls"] = ncalls;
            s["boundary_hits"] = nboundary;
            s["looping"] = nloop;
            rr.sample = s;
        }
        catch (std::exception const& e)
        {
            rr.violate("C08", "setup-exception", "setup-exception",
                       std::string("construction or propagation threw: ") + e.what());
        }
        return rr;
    }

    std::vector<json> shrink(json const& plan) const override
    {
        std::vector<json> out;
        auto const& ops = plan.at("ops");
        std::size_t n = ops.size();
        for (std::size_t chunk = n / 2; chunk >= 1; chunk /= 2)
        {
            for (std::size_t start = 0; start < n; start += chunk)
            {
                json p = plan;
                json kept = json::array();
                for (std::size_t i = 0; i < n; ++i)
                    if (i < start || i >= start + chunk)
                        kept.push_back(ops[i]);
                if (kept.empty())
                    continue;
                p["ops"] = kept;
                out.push_back(p);
            }
            if (chunk == 1 || out.size() > 200)
                break;
        }
        if (plan["slots"].get<int>() > 1)
        {
            json p = plan;
            p["slots"] = 1;
            out.push_back(p);
        }
        if (!plan["driver"].value("defaults", true))
        {
            json p = plan;
            p["driver"] = {{"defaults", true}};
            out.push_back(p);
        }
        return out;
    }

    json describe(CheckSpec const&) const override
    {
        json d;
        d["level"] = "exploration";
        d["rule"]
            = "Each evaluation: a geometry (bundled or generated), a uniform field (1e-3..20 T, any "
              "direction, z-aligned for the exact helix stepper), an integrator (Dormand-Prince, "
              "RK4, exact z-helix), FieldDriverOptions (defaults or seeded values inside "
              "validate_input) and clients that repeatedly call propagate(step) with seeded steps "
              "from below the minimum substep to many gyroradii for e-, e+, mu-, p of 1 keV..100 "
              "GeV; after a boundary hit the client crosses. Oracles per call: energy unchanged and "
              "unit direction; 0 < distance <= step; returned flag == geo.is_on_boundary(); "
              "outcome is full step / looping / boundary (a short unflagged step must be a bump <= "
              "0.1 delta_intersection); end point within 3 eps_rel_max*s*(2+n_steps) + 3(delta_int+min_step) of "
              "the analytic helix; unflagged end points lie in the start volume; flagged ones lie "
              "on a reference surface, the helix before the hit stays in the start volume up to "
              "the chord tolerance, and the post-crossing volume is the one the path enters. "
              "Non-trivial: >= 5 calls with >= 1 boundary hit; distinct = (geometry, outcome "
              "counts).";
        d["components"] = {
            {"real",
             {"FieldPropagator", "FieldDriver", "DormandPrinceStepper", "RungeKuttaStepper",
              "ZHelixStepper", "MagFieldEquation", "UniformField", "UniformZField",
              "RZMapField + RZMapFieldParams (cms-tiny.field.json on simple-cms)",
              "FieldDriverOptions/validate_input", "OrangeTrackView and trackers",
              "ParticleTrackView"}},
            {"stub", {"analytic helix", "RefGeo", "geometry generator"}},
            {"not_run", {"AlongStepUniformMsc / AlongStepRZMapFieldMsc actions (field path of world T uses the uniform-field along-step)"}}};
        d["assumptions"]
            = {"accuracy model of the driver: per integration step position error <= epsilon_rel_max*h "
               "and relative momentum error <= epsilon_rel_max, accumulated over s/sqrt(8 R "
               "delta_chord) steps, times 3; intercept tolerance "
               "delta_intersection, remainder below minimum_step; "
               "calibrated on the unchanged tree (max observed error/tolerance is reported)",
               "boundary features thinner than delta_chord may legitimately be missed"};
        return d;
    }

    std::uint64_t default_runs(CheckSpec const& spec) const override
    {
        return spec.tier == "thorough" ? 60000 : 2000;
    }
};

std::unique_ptr<World> make_world_g8()
{
    return std::make_unique<WorldG8>();
}
RegisterWorld reg_g8({"C08"}, &make_world_g8);
}  // namespace
}  // namespace vsim
