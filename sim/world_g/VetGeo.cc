// vet-geo: sample random points of a geometry file with the reference locator
// and report overlaps / unlocatable points (used to choose the bundled files
// that satisfy the validity envelope of the transport world).
#include <cmath>
#include <iostream>

#include "orange/OrangeParams.hh"

#include "ref/RefGeo.hh"
#include "world_g/GeoGen.hh"

namespace vsim
{
int cmd_vet_geo(std::string const& file)
{
    using namespace celeritas;
    json geo = {{"kind", "file"}, {"file", file}};
    OrangeInput inp = load_geometry_input(geo);
    RefGeo ref(inp);
    OrangeInput copy = inp;
    OrangeParams params(std::move(copy));
    auto const& bb = params.bbox();
    double lo[3], hi[3];
    for (int k = 0; k < 3; ++k)
    {
        lo[k] = std::isfinite(bb.lower()[k]) && bb.lower()[k] > -1e4 ? bb.lower()[k] : -100;
        hi[k] = std::isfinite(bb.upper()[k]) && bb.upper()[k] < 1e4 ? bb.upper()[k] : 100;
    }
    Rng r(12345);
    long n = 200000, overlaps = 0, nowhere = 0;
    for (long i = 0; i < n; ++i)
    {
        ld x[3];
        for (int k = 0; k < 3; ++k)
            x[k] = r.uniform(lo[k], hi[k]);
        RefPath p = ref.locate(x);
        if (p.overlaps)
            ++overlaps;
        else if (!p.valid)
            ++nowhere;
    }
    std::cout << file << " supported=" << ref.supported() << " points=" << n
              << " overlapping=" << overlaps << " unlocatable=" << nowhere << std::endl;
    return 0;
}
}  // namespace vsim
