// Geometry source "api": object trees handed to the construction API
// (orangeinp: shapes, solids, booleans, transforms, nested unit protos) and
// converted by the real InputBuilder.  The simulator only decides the tree; the
// OrangeInput it navigates and round-trips is what the library built.
#include <cmath>
#include <cstdlib>
#include <iostream>
#include <memory>

#include "corecel/math/Turn.hh"
#include "orange/MatrixUtils.hh"
#include "orange/OrangeInput.hh"
#include "orange/orangeinp/CsgObject.hh"
#include "orange/orangeinp/InputBuilder.hh"
#include "orange/orangeinp/IntersectRegion.hh"
#include "orange/orangeinp/Shape.hh"
#include "orange/orangeinp/Solid.hh"
#include "orange/orangeinp/Transformed.hh"
#include "orange/orangeinp/UnitProto.hh"
#include "orange/transform/Transformation.hh"
#include "orange/transform/Translation.hh"

#include "core/Rng.hh"
#include "world_g/GeoGen.hh"

using namespace celeritas;
namespace oi = celeritas::orangeinp;
using oi::BoxShape;
using oi::ConeShape;
using oi::CylinderShape;
using oi::CylinderSolid;
using oi::EllipsoidShape;
using oi::InputBuilder;
using oi::ObjectInterface;
using oi::PrismShape;
using oi::ProtoInterface;
using oi::SolidEnclosedAngle;
using oi::SphereShape;
using oi::SphereSolid;
using oi::Transformed;
using oi::UnitProto;
using oi::make_subtraction;

namespace vsim
{
namespace
{
using SPObj = std::shared_ptr<ObjectInterface const>;
using SPProto = std::shared_ptr<ProtoInterface const>;

struct ApiState
{
    Rng r;
    int counter{0};
    int protos{0};
    double tol_abs{1.5e-8};
    bool allow_small_ellipsoid{false};
    std::string name(char const* base) { return std::string(base) + std::to_string(counter++); }
};

VariantTransform random_transform(ApiState& st, double const centre[3])
{
    Real3 t{centre[0], centre[1], centre[2]};
    if (st.r.coin(0.5))
        return Translation{t};
    double ax[3];
    st.r.isotropic(ax);
    // quarter turns exercise the simplifier's axis-aligned paths
    double turn = st.r.coin(0.3) ? 0.25 * (1 + (int)st.r.below(3)) : st.r.uniform(0.0, 1.0);
    return Transformation{make_rotation(Real3{ax[0], ax[1], ax[2]}, Turn{turn}), t};
}

//! A solid that fits inside a sphere of radius `ext` about the origin
SPObj random_object(ApiState& st, double ext)
{
    double s = ext / std::sqrt(3.0);  // half-width of the inscribed cube
    auto kind = st.r.below(9);
    if (char const* only = std::getenv("VSIM_API_ONLY"))
        kind = std::atoi(only);
    if (std::getenv("VSIM_TRACE"))
        std::cerr << "api object kind " << kind << " ext " << ext << std::endl;
    switch (kind)
    {
        case 0: return std::make_shared<SphereShape>(st.name("sph"), oi::Sphere{st.r.uniform(0.3, 1.0) * ext});
        case 1:
            return std::make_shared<BoxShape>(
                st.name("box"),
                oi::Box{Real3{st.r.uniform(0.3, 1.0) * s, st.r.uniform(0.3, 1.0) * s,
                          st.r.uniform(0.3, 1.0) * s}});
        case 2:
            return std::make_shared<CylinderShape>(
                st.name("cyl"), oi::Cylinder{st.r.uniform(0.3, 1.0) * s, st.r.uniform(0.3, 1.0) * s});
        case 3: {
            double lo = st.r.uniform(0.0, 1.0) * s, hi = st.r.uniform(0.2, 1.0) * s;
            if (st.r.coin(0.2))
                lo = 0;  // pointed cone
            return std::make_shared<ConeShape>(st.name("cone"),
                                               oi::Cone{Real2{lo, hi}, st.r.uniform(0.3, 1.0) * s});
        }
        case 4:
            // Incidental finding (DESIGN 12.3): Ellipsoid::build emits second-order
            // coefficients r_j^2 r_k^2 and the simplifier compares them with the
            // absolute tolerance, so an ellipsoid with r^4 below the tolerance is
            // taken for a plane with a zero normal (NaN, then unbounded recursion).
            // Such ellipsoids are not generated.
            if (!st.allow_small_ellipsoid && std::pow(0.3 * s, 4) < 1e3 * st.tol_abs)
                return std::make_shared<SphereShape>(st.name("sph"), oi::Sphere{0.5 * ext});
            return std::make_shared<EllipsoidShape>(
                st.name("ell"),
                oi::Ellipsoid{Real3{st.r.uniform(0.3, 1.0) * s, st.r.uniform(0.3, 1.0) * s,
                                st.r.uniform(0.3, 1.0) * s}});
        case 5:
            return std::make_shared<PrismShape>(
                st.name("prism"),
                oi::Prism{3 + (int)st.r.below(6), st.r.uniform(0.3, 0.8) * s, st.r.uniform(0.3, 1.0) * s,
                      st.r.uniform(0.0, 1.0)});
        case 6: {
            // hollow sphere
            double ro = st.r.uniform(0.5, 1.0) * ext;
            return std::make_shared<SphereSolid>(st.name("shell"), oi::Sphere{ro},
                                                 oi::Sphere{ro * st.r.uniform(0.2, 0.9)});
        }
        case 7: {
            // tube, optionally an angular slice
            double ro = st.r.uniform(0.5, 1.0) * s, hh = st.r.uniform(0.3, 1.0) * s;
            SolidEnclosedAngle ang;
            if (st.r.coin(0.5))
                ang = SolidEnclosedAngle{Turn{st.r.uniform(0.0, 1.0)}, Turn{st.r.uniform(0.1, 0.9)}};
            return std::make_shared<CylinderSolid>(st.name("tube"), oi::Cylinder{ro, hh},
                                                   oi::Cylinder{ro * st.r.uniform(0.2, 0.9), hh},
                                                   std::move(ang));
        }
        default: {
            // box with a spherical bite
            auto box = std::make_shared<BoxShape>(st.name("bbox"), oi::Box{Real3{s, s, s}});
            auto bite = std::make_shared<Transformed>(
                std::make_shared<SphereShape>(st.name("bite"), oi::Sphere{0.6 * s}),
                Translation{Real3{s, s * st.r.uniform(-1, 1), s * st.r.uniform(-1, 1)}});
            return make_subtraction(st.name("bitten"), box, bite);
        }
    }
}

SPProto random_unit(ApiState& st, double half_width, int depth, bool global)
{
    UnitProto::Input inp;
    inp.label = st.name(global ? "global" : "unit");
    ++st.protos;
    // boundary: a box for the global unit, sphere / box / cylinder otherwise
    double W = half_width;
    switch (global ? 1 : st.r.below(3))
    {
        case 0: inp.boundary.interior = std::make_shared<SphereShape>(st.name("bound"), oi::Sphere{W}); break;
        case 1:
            inp.boundary.interior
                = std::make_shared<BoxShape>(st.name("bound"), oi::Box{Real3{W, W, W}});
            break;
        default:
            inp.boundary.interior
                = std::make_shared<CylinderShape>(st.name("bound"), oi::Cylinder{W, W});
            break;
    }
    inp.background.fill = GeoMaterialId{0};
    // contents sit in the eight octant cells of the inscribed cube, so they
    // neither overlap each other nor touch the boundary
    double cube = (global ? W : W / std::sqrt(3.0));
    double cell = cube / 2;  // half-width of a cell
    double ext = 0.8 * cell;  // radius of the sphere a content object fits in
    int nobj = 1 + (int)st.r.below(5);
    std::vector<int> cells = {0, 1, 2, 3, 4, 5, 6, 7};
    for (int i = 0; i < nobj; ++i)
    {
        std::size_t pick = st.r.below(cells.size());
        int c = cells[pick];
        cells.erase(cells.begin() + pick);
        double centre[3] = {(c & 1 ? 1 : -1) * cell, (c & 2 ? 1 : -1) * cell, (c & 4 ? 1 : -1) * cell};
        if (depth > 0 && st.r.coin(0.35))
        {
            UnitProto::DaughterInput d;
            // the daughter's own boundary must fit in the cell under any rotation
            d.fill = random_unit(st, ext / std::sqrt(3.0), depth - 1, false);
            d.transform = random_transform(st, centre);
            inp.daughters.push_back(std::move(d));
        }
        else
        {
            UnitProto::MaterialInput m;
            m.interior = std::make_shared<Transformed>(random_object(st, ext),
                                                       random_transform(st, centre));
            m.fill = GeoMaterialId{1 + (unsigned)st.r.below(3)};
            m.label = Label{st.name("mat")};
            inp.materials.push_back(std::move(m));
        }
    }
    return std::make_shared<UnitProto>(std::move(inp));
}
}  // namespace

OrangeInput build_api_geometry(json const& geo, GenGeoStats* stats)
{
    ApiState st{Rng(mix64(geo.at("seed").get<std::uint64_t>()) ^ 0xa91c0de), 0, 0};
    double W = geo.value("half_width", 10.0);
    int depth = geo.value("max_depth", 1);
    InputBuilder::Options opts;
    opts.tol = (st.r.coin(0.7) || std::getenv("VSIM_API_DEFTOL")) ? Tolerance<>::from_default()
                              : Tolerance<>::from_relative(st.r.log_uniform(1e-7, 1e-5), W);
    st.tol_abs = opts.tol.abs;
    st.allow_small_ellipsoid = geo.value("allow_small_ellipsoid", false);
    SPProto global = random_unit(st, W, depth, true);
    if (char const* rt = std::getenv("VSIM_API_RELTOL"))
        opts.tol = Tolerance<>::from_relative(std::atof(rt), W);
    if (char const* dump = std::getenv("VSIM_API_PROTO_DUMP"))
        opts.proto_output_file = dump;
    InputBuilder build{std::move(opts)};
    OrangeInput inp = build(*global);
    if (stats)
    {
        stats->units = (int)inp.universes.size();
        stats->max_depth = depth;
    }
    return inp;
}
}  // namespace vsim
