#include "Oracles.hh"

#include <cmath>
#include <cstring>
#include <map>
#include <set>
#include <sstream>
#include <tuple>

namespace vsim
{
namespace
{
constexpr int ST_INACTIVE = 0, ST_INIT = 1, ST_ALIVE = 2, ST_ERRORED = 3, ST_KILLED = 4;
constexpr double EPS = 2.220446049250313e-16;

using Key = std::vector<std::uint64_t>;

std::uint64_t bits(double d)
{
    std::uint64_t u;
    std::memcpy(&u, &d, sizeof(u));
    return u;
}

Key init_key(std::uint32_t event,
             std::uint32_t parent,
             std::uint32_t particle,
             double energy,
             double const pos[3],
             double const dir[3],
             double time)
{
    return Key{event,
               parent,
               particle,
               bits(energy),
               bits(pos[0]),
               bits(pos[1]),
               bits(pos[2]),
               bits(dir[0]),
               bits(dir[1]),
               bits(dir[2]),
               bits(time)};
}

std::string fmt_slot(Frame const& f, std::size_t slot, SlotObs const& s)
{
    std::ostringstream os;
    os.precision(17);
    os << "step=" << f.step << " slot=" << slot << " event=" << (int)s.event
       << " track=" << (int)s.track << " parent=" << (int)s.parent
       << " nsteps=" << s.num_steps << " status=" << s.status << " particle=" << (int)s.particle
       << " E=" << s.energy << " pos=(" << s.pos[0] << "," << s.pos[1] << "," << s.pos[2]
       << ") vol=" << (int)s.volume;
    return os.str();
}

struct TrackKey
{
    std::uint32_t event, track;
    bool operator<(TrackKey const& o) const
    {
        return event != o.event ? event < o.event : track < o.track;
    }
    bool operator==(TrackKey const& o) const { return event == o.event && track == o.track; }
};

}  // namespace

//---------------------------------------------------------------------------//
void history_shape(History const& h, RunResult& out)
{
    Hasher sh;
    long births = 0, deaths = 0, steps = 0, maxq = 0;
    for (auto const& f : h.frames)
    {
        std::uint32_t d = 0, b = 0;
        for (auto const& s : f.obs[(int)Point::post])
        {
            if (!s.active())
                continue;
            ++steps;
            if (s.status >= ST_ERRORED)
                ++d;
            for (auto const& sec : s.secondaries)
                if (sec.particle != kNone)
                    ++b;
        }
        sh.add(f.res_active);
        sh.add(f.res_alive);
        sh.add(f.res_queued);
        sh.add(d);
        sh.add(b);
        sh.add(f.completed);
        births += b;
        deaths += d;
        maxq = std::max<long>(maxq, f.res_queued);
    }
    out.shape = sh.value();
    // Non-trivial: at least one secondary was born and some slot was reused
    out.nontrivial = births > 0 && deaths > 1 && h.frames.size() > 2;
    out.count("sim_steps", h.frames.size());
    out.count("sim_track_steps", steps);
    out.count("secondaries_born", births);
    out.count("tracks_ended", deaths);
    out.stats["max_queued"] = std::max<long>(out.stats.value("max_queued", 0L), maxq);
}

//---------------------------------------------------------------------------//
bool history_made_progress(History const& h, std::size_t window)
{
    auto const& fr = h.frames;
    if (fr.size() <= window + 1)
        return true;
    Frame const& f1 = fr.back();
    Frame const& f0 = fr[fr.size() - 1 - window];
    auto const& a = f0.obs[2];
    auto const& b = f1.obs[2];
    if (a.size() != b.size() || f0.end_counters.initializers != f1.end_counters.initializers)
        return true;
    for (std::size_t sl = 0; sl < b.size(); ++sl)
    {
        if (a[sl].active() != b[sl].active())
            return true;
        if (b[sl].active()
            && (a[sl].track != b[sl].track || a[sl].event != b[sl].event
                || a[sl].energy != b[sl].energy || a[sl].time != b[sl].time
                || std::memcmp(a[sl].pos, b[sl].pos, sizeof(a[sl].pos)) != 0))
            return true;
    }
    return false;
}

void check_history(History const& h, Problem const& prob, OracleOpts const& opts, RunResult& out)
{
    auto two_mc2 = [&](std::uint32_t pid) -> double {
        return (pid != kNone && pid == prob.positron_id) ? 2 * prob.masses[pid] : 0.0;
    };
    auto action_id = [&](char const* label) -> std::uint32_t {
        auto it = prob.action_ids.find(label);
        return it == prob.action_ids.end() ? kNone : it->second;
    };
    // Recorded C08 regime seen through the stepping loop (uniform-field
    // along-step): delta_chord > 0.122 R_perp for the particle at this step
    auto c08_regime = [&](SlotObs const& b) -> std::string {
        double bmag = std::sqrt(opts.field_tesla[0] * opts.field_tesla[0]
                                + opts.field_tesla[1] * opts.field_tesla[1]
                                + opts.field_tesla[2] * opts.field_tesla[2]);
        if (!(bmag > 0) || b.particle == kNone || b.particle >= prob.masses.size())
            return "";
        double m = prob.masses[b.particle];
        double pmom = std::sqrt(b.energy * (b.energy + 2 * m));
        double cosb = (b.dir[0] * opts.field_tesla[0] + b.dir[1] * opts.field_tesla[1]
                       + b.dir[2] * opts.field_tesla[2])
                      / bmag;
        double rperp = pmom / (2.99792458 * bmag) * std::sqrt(std::max(0.0, 1 - cosb * cosb));
        if (opts.field_delta_chord > 0.1224 * rperp)
            return ":delta_chord-admits-substeps-over-1-rad";
        // the chord search halves the trial step at most max_nsteps times
        double hchord = std::sqrt(8 * rperp * opts.field_delta_chord) + opts.field_minimum_step;
        if (b.step_length > hchord * std::ldexp(1.0, opts.field_max_nsteps - 2))
            return ":chord-search-exhausts-max_nsteps";
        return "";
    };
    std::uint32_t const boundary_action = action_id("geo-boundary");
    std::uint32_t const failure_action = action_id("physics-failure");
    std::uint32_t const tracking_cut_action = action_id("tracking-cut");
    std::uint32_t const discrete_action = action_id("physics-discrete-select");

    // ---- reference track-set model (C02) ----
    std::multiset<Key> pending_prim, pending_sec;
    std::map<std::uint32_t, std::set<std::uint32_t>> known, finished;
    std::vector<bool> slot_has(h.num_slots, false);
    std::vector<TrackKey> slot_track(h.num_slots, TrackKey{kNone, kNone});
    std::map<TrackKey, std::uint32_t> expected_steps;
    std::map<TrackKey, SlotObs> last_post;  // for continuity (C05)

    // ---- event balances (C01) ----
    struct Balance
    {
        double q_in{0}, dep{0}, esc{0}, abs_sum{0};
        long n_prim{0};
        long n_terms{0};
    };
    std::map<std::uint32_t, Balance> balance;
    // per-track balance
    struct TBalance
    {
        double q_first{0}, q_last{0}, dep{0}, sec{0}, abs_sum{0};
        long n_terms{0};
        bool ended{false};
    };
    std::map<TrackKey, TBalance> tbal;

    bool model_valid = true;  // false after an aborted step until a reset

    for (std::size_t fi = 0; fi < h.frames.size(); ++fi)
    {
        Frame const& f = h.frames[fi];
        if (f.after_reset)
        {
            pending_prim.clear();
            pending_sec.clear();
            std::fill(slot_has.begin(), slot_has.end(), false);
            // tracks in flight were discarded: forget unfinished balances
            for (auto& kv : tbal)
                kv.second.ended = true;
            last_post.clear();
            expected_steps.clear();
            balance.clear();
            model_valid = true;
        }
        if (f.after_reseed)
        {
            // reseed() restarts the per-event track counters: a new epoch of
            // track ids begins (only legal with nothing in flight)
            known.clear();
            finished.clear();
            tbal.clear();
        }
        if (!model_valid)
            continue;
        if (f.obs[(int)Point::start].empty())
        {
            // step aborted before user_start was reached
            model_valid = false;
            continue;
        }

        for (auto const& p : f.primaries)
        {
            pending_prim.insert(init_key(p.event, kNone, p.particle, p.energy, p.pos, p.dir, p.time));
            auto& b = balance[p.event];
            double q = p.energy + two_mc2(p.particle);
            b.q_in += q;
            b.abs_sum += std::fabs(q);
            ++b.n_prim;
        }

        auto const& start = f.obs[(int)Point::start];
        auto const& pre = f.obs[(int)Point::pre];
        auto const& post = f.obs[(int)Point::post];

        // -------- user_start: who is in which slot --------
        std::uint32_t n_active = 0;
        for (std::size_t s = 0; s < start.size(); ++s)
        {
            SlotObs const& o = start[s];
            if (!o.active())
            {
                if (slot_has[s] && opts.c02)
                {
                    out.violate("C02",
                                "alive-track-vanished",
                                "alive-track-vanished",
                                "slot that held an alive track is inactive at the next step: "
                                    + fmt_slot(f, s, o));
                }
                slot_has[s] = false;
                continue;
            }
            ++n_active;
            TrackKey tk{o.event, o.track};
            if (slot_has[s] && slot_track[s] == tk)
            {
                // continuing track
                if (opts.c02)
                {
                    if (o.status != ST_ALIVE && !(f.after_kill && o.status == ST_ERRORED))
                        out.violate("C02",
                                    "continuing-track-status",
                                    "continuing-track-status",
                                    "continuing track is not 'alive' at start of step: "
                                        + fmt_slot(f, s, o));
                    auto it = expected_steps.find(tk);
                    if (it != expected_steps.end() && it->second != o.num_steps)
                        out.violate("C02",
                                    "step-count-not-consecutive",
                                    "step-count-not-consecutive",
                                    "expected step count " + std::to_string(it->second) + ": "
                                        + fmt_slot(f, s, o));
                }
                continue;
            }
            // ---- new track in this slot ----
            if (slot_has[s] && opts.c02)
            {
                out.violate("C02",
                            "slot-overwritten",
                            "slot-overwritten",
                            "slot held alive track (event " + std::to_string(slot_track[s].event)
                                + ", track " + std::to_string(slot_track[s].track)
                                + ") but now holds another: " + fmt_slot(f, s, o));
            }
            if (opts.c02)
            {
                if (o.status == ST_ERRORED)
                    out.probe("track_failed_to_initialize");
                if (o.status != ST_INIT && o.status != ST_ERRORED)
                    out.violate("C02",
                                "new-track-status",
                                "new-track-status",
                                "new track is not 'initializing': " + fmt_slot(f, s, o));
                if (o.num_steps != 0)
                    out.violate("C02",
                                "new-track-step-count",
                                "new-track-step-count",
                                "new track has nonzero step count: " + fmt_slot(f, s, o));
                if (o.track == kNone || o.event == kNone)
                    out.violate("C02",
                                "new-track-null-id",
                                "new-track-null-id",
                                "new track has null track/event id: " + fmt_slot(f, s, o));
                if (known[o.event].count(o.track))
                    out.violate("C02",
                                "duplicate-track-id",
                                "duplicate-track-id",
                                "track id already used in this event: " + fmt_slot(f, s, o));
                if (o.parent != kNone && !known[o.event].count(o.parent))
                    out.violate("C02",
                                "unknown-parent",
                                "unknown-parent",
                                "parent id is not a known track of the event: "
                                    + fmt_slot(f, s, o));
                Key k = init_key(o.event, o.parent, o.particle, o.energy, o.pos, o.dir, o.time);
                auto& pend = (o.parent == kNone) ? pending_prim : pending_sec;
                auto it = pend.find(k);
                if (it == pend.end())
                {
                    out.violate("C02",
                                o.parent == kNone ? "track-without-primary"
                                                  : "track-without-secondary",
                                o.parent == kNone ? "track-without-primary"
                                                  : "track-without-secondary",
                                "new track matches no pending initializer (duplicated, "
                                "altered or invented): "
                                    + fmt_slot(f, s, o));
                }
                else
                {
                    pend.erase(it);
                }
            }
            known[o.event].insert(o.track);
            slot_has[s] = true;
            slot_track[s] = tk;
            expected_steps[tk] = 0;
            auto& tb = tbal[tk];
            tb.q_first = o.energy + two_mc2(o.particle);
            tb.q_last = tb.q_first;
            tb.abs_sum = std::fabs(tb.q_first);
        }
        if (opts.c02 && f.completed && f.res_active != n_active)
        {
            out.violate("C02",
                        "counter-active",
                        "counter-active",
                        "reported active=" + std::to_string(f.res_active) + " but "
                            + std::to_string(n_active) + " slots are active at step "
                            + std::to_string(f.step));
        }

        if (post.empty() || pre.empty())
        {
            model_valid = false;  // aborted mid-step
            continue;
        }

        // -------- per active slot: the step itself --------
        for (std::size_t s = 0; s < post.size(); ++s)
        {
            SlotObs const& a = start[s];
            SlotObs const& b = pre[s];
            SlotObs const& c = post[s];
            if (!a.active())
            {
                if (c.active() && opts.c02)
                    out.violate("C02",
                                "track-appeared-mid-step",
                                "track-appeared-mid-step",
                                "slot inactive at start is active at post: " + fmt_slot(f, s, c));
                continue;
            }
            TrackKey tk{a.event, a.track};
            if (opts.c02
                && (b.track != a.track || c.track != a.track || b.event != a.event
                    || c.event != a.event))
            {
                out.violate("C02",
                            "track-id-changed-mid-step",
                            "track-id-changed-mid-step",
                            "slot changed track identity within a step: " + fmt_slot(f, s, c));
            }

            // ---- C05: within-step status monotonicity ----
            if (opts.c05)
            {
                if (!(a.status <= b.status && b.status <= c.status) || c.status < ST_ALIVE)
                {
                    out.violate("C05",
                                "status-not-monotone",
                                "status-not-monotone",
                                "status sequence start/pre/post = " + std::to_string(a.status)
                                    + "/" + std::to_string(b.status) + "/"
                                    + std::to_string(c.status) + ": " + fmt_slot(f, s, c));
                }
            }

            bool errored_init = (b.status == ST_ERRORED);

            // ---- C02: only an interaction emits secondaries ----
            // "every secondary emitted by an interaction becomes exactly one
            // track": a step that ends with anything but a physics model
            // action (boundary, range, tracking cut of a flushed track,
            // rejection...) had no interaction, so whatever its secondaries
            // span still holds was emitted -- and turned into tracks -- before.
            if (opts.c02 && !c.secondaries.empty() && !prob.is_model_action.empty()
                && !(c.post_action < prob.is_model_action.size()
                     && prob.is_model_action[c.post_action]))
            {
                out.violate("C02",
                            "secondaries-without-interaction",
                            "secondaries-without-interaction",
                            "a step that did not end in an interaction reports "
                                + std::to_string(c.secondaries.size())
                                + " secondaries (they become tracks): " + fmt_slot(f, s, c));
            }

            // ---- C05: continuity with previous step of this track ----
            if (opts.c05)
            {
                auto it = last_post.find(tk);
                if (it != last_post.end())
                {
                    SlotObs const& p = it->second;
                    bool same = bits(p.energy) == bits(b.energy) && bits(p.time) == bits(b.time)
                                && (p.volume == b.volume || b.status == ST_ERRORED);
                    for (int k = 0; k < 3; ++k)
                        same = same && bits(p.pos[k]) == bits(b.pos[k]);
                    if (!same)
                    {
                        out.violate("C05",
                                    "step-discontinuity",
                                    "step-discontinuity",
                                    "pre-step state differs from previous post-step state: prev "
                                        + fmt_slot(f, s, p) + " | now " + fmt_slot(f, s, b));
                    }
                }
                // start and pre must agree on position/energy (nothing moves
                // between initialization and pre-step)
                if (bits(a.energy) != bits(b.energy) || bits(a.pos[0]) != bits(b.pos[0])
                    || bits(a.pos[1]) != bits(b.pos[1]) || bits(a.pos[2]) != bits(b.pos[2]))
                {
                    out.violate("C05",
                                "moved-before-pre-step",
                                "moved-before-pre-step",
                                "state changed between user_start and user_pre: "
                                    + fmt_slot(f, s, b));
                }
            }

            // ---- C05: step relations ----
            if (opts.c05 && !errored_init)
            {
                double disp = 0;
                for (int k = 0; k < 3; ++k)
                    disp += (c.pos[k] - b.pos[k]) * (c.pos[k] - b.pos[k]);
                disp = std::sqrt(disp);
                if (c.time < b.time)
                    out.violate("C05",
                                "time-decreased",
                                "time-decreased",
                                "time decreased over a step: " + fmt_slot(f, s, c));
                if (c.energy > b.energy)
                    out.violate("C05",
                                "energy-increased",
                                "energy-increased",
                                "kinetic energy increased over a step: pre E="
                                    + std::to_string(b.energy) + " " + fmt_slot(f, s, c));
                bool failed_alloc = (c.post_action == failure_action && failure_action != kNone);
                if (failed_alloc)
                    out.probe("step_with_failed_allocation");
                if (!(c.step_length > 0))
                {
                    bool stopped = (b.energy == 0);
                    if (!stopped)
                    {
                        std::string klass = failed_alloc ? "zero-step-after-failed-allocation"
                                                         : "zero-step-length";
                        out.violate("C05", klass, klass,
                                    "step length is not positive for a moving particle: step="
                                        + std::to_string(c.step_length) + " " + fmt_slot(f, s, c));
                    }
                }
                if (c.step_length > b.step_length * (1 + 4 * EPS))
                {
                    out.violate("C05",
                                "step-exceeds-limit",
                                "step-exceeds-limit",
                                "step " + std::to_string(c.step_length) + " exceeds pre-step limit "
                                    + std::to_string(b.step_length) + ": " + fmt_slot(f, s, c));
                }
                double scale = std::fabs(c.pos[0]) + std::fabs(c.pos[1]) + std::fabs(c.pos[2])
                               + std::fabs(b.pos[0]) + std::fabs(b.pos[1]) + std::fabs(b.pos[2]);
                if (disp > c.step_length * (1 + 16 * EPS) + 16 * EPS * scale + opts.field_disp_tol
                               + 4 * opts.field_rel_tol * c.step_length)
                {
                    std::string klass = failed_alloc ? "displacement-exceeds-step-after-failed-allocation"
                                                     : "displacement-exceeds-step";
                    std::ostringstream os;
                    os.precision(17);
                    os << "straight-line displacement " << disp << " exceeds step length "
                       << c.step_length << ": " << fmt_slot(f, s, c);
                    std::string fp = klass + c08_regime(b);
                    out.violate("C05", klass, fp, os.str());
                }
                // a track cut after a geometry error has no meaningful volume
                bool cut = (c.post_action == tracking_cut_action);
                if (!cut && !c.outside && c.volume != b.volume && c.post_action != boundary_action)
                {
                    out.violate("C05",
                                "volume-changed-without-boundary",
                                "volume-changed-without-boundary" + c08_regime(b),
                                "volume changed on a step not limited by a boundary: pre vol "
                                    + std::to_string((int)b.volume) + " " + fmt_slot(f, s, c));
                }
                if (!cut && c.outside && c.post_action != boundary_action)
                {
                    out.violate("C05",
                                "left-world-without-boundary",
                                "left-world-without-boundary" + c08_regime(b),
                                "track is outside after a non-boundary step: " + fmt_slot(f, s, c));
                }
                if (opts.probe && !b.on_boundary)
                {
                    // Differential location check: the volume reported while
                    // tracking equals a fresh initialization at the same point
                    double saf = opts.probe->safety(b.pos);
                    // in a field the propagator treats points within
                    // delta_intersection of a surface as being on it
                    if (saf > 100 * opts.geo_tol + 8 * opts.field_disp_tol)
                    {
                        std::uint32_t v = opts.probe->locate(b.pos);
                        out.count("volume_checks");
                        if (v != b.volume)
                            out.violate("C05",
                                        "volume-mismatch",
                                        "volume-mismatch" + c08_regime(b),
                                        "reported volume differs from the volume containing the "
                                        "position ("
                                            + std::to_string((int)v) + "): " + fmt_slot(f, s, b));
                    }
                    else
                    {
                        out.count("volume_checks_skipped_near_surface");
                    }
                }
            }

            // ---- C01: per-step energy balance ----
            double q_pre = b.energy + two_mc2(b.particle);
            bool ended = c.status >= ST_ERRORED;
            // left the world: ended by the boundary action while outside (a track
            // that failed to start outside is cut by the tracking cut instead)
            bool escaped = ended && c.outside && c.post_action == boundary_action;
            double q_post = (!ended || escaped) ? c.energy + two_mc2(c.particle) : 0.0;
            double sec_sum = 0, abs_terms = std::fabs(q_pre) + std::fabs(q_post) + std::fabs(c.deposit);
            for (auto const& sec : c.secondaries)
            {
                if (sec.particle == kNone)
                    continue;
                double q = sec.energy + two_mc2(sec.particle);
                sec_sum += q;
                abs_terms += std::fabs(q);
            }
            if (opts.c01)
            {
                double lhs = q_pre;
                double rhs = q_post + c.deposit + sec_sum;
                double tol = 64 * EPS * abs_terms + 1e-12;
                out.count("energy_balance_checks");
                if (!(std::fabs(lhs - rhs) <= tol) || !std::isfinite(rhs))
                {
                    std::string act = c.post_action < prob.action_labels.size()
                                          ? prob.action_labels[c.post_action]
                                          : "?";
                    // structural class: which end-of-step path
                    std::string klass = "step-energy-imbalance";
                    std::ostringstream os;
                    os.precision(17);
                    os << "q_pre=" << q_pre << " != q_post=" << q_post << " + deposit=" << c.deposit
                       << " + secondaries=" << sec_sum << " (diff " << (lhs - rhs)
                       << ", tol " << tol << ") action=" << act << " ended=" << ended
                       << " escaped=" << escaped << ": " << fmt_slot(f, s, c);
                    out.violate("C01", klass, klass + ":" + act, os.str());
                }
                if (ended && !escaped && c.energy != 0)
                {
                    // A track that ends inside the world must have given up
                    // all its kinetic energy (else it silently disappears)
                    out.count("ended_with_residual_energy");
                }
                if (c.deposit < 0 || !std::isfinite(c.deposit))
                    out.violate("C01",
                                "negative-deposit",
                                "negative-deposit",
                                "energy deposition is negative or not finite: "
                                    + fmt_slot(f, s, c));
            }
            {
                auto& eb = balance[a.event];
                eb.dep += c.deposit;
                eb.abs_sum += std::fabs(c.deposit);
                ++eb.n_terms;
                if (escaped)
                {
                    eb.esc += q_post;
                    eb.abs_sum += std::fabs(q_post);
                    out.probe("track_left_world");
                }
                auto& tb = tbal[tk];
                tb.dep += c.deposit;
                tb.sec += sec_sum;
                tb.q_last = q_post;
                tb.abs_sum += std::fabs(c.deposit) + sec_sum;
                tb.n_terms += 1 + c.secondaries.size();
                if (ended)
                    tb.ended = true;
            }

            // ---- probes ----
            if (c.post_action < prob.action_labels.size())
            {
                std::string const& lab = prob.action_labels[c.post_action];
                if (ended)
                    out.probe("ended_by:" + lab);
                if (lab == "eloss-range")
                    out.probe("step_limited_by_range");
                if (lab == "tracking-cut")
                    out.probe("tracking_cut");
                if (lab == "scat-klein-nishina" || lab == "ioni-moller-bhabha"
                    || lab == "annihil-2-gamma")
                {
                    out.probe("real_model:" + lab);
                    if (lab == "annihil-2-gamma" && b.energy == 0)
                        out.probe("real_model:annihilation_at_rest");
                }
            }
            for (auto const& sec : c.secondaries)
                if (sec.particle == kNone)
                    out.probe("subcut_secondary");
                else if (sec.particle == prob.positron_id)
                    out.probe("positron_born");

            // ---- model update ----
            if (opts.c02 && c.num_steps != b.num_steps + 1 && !errored_init)
            {
                out.violate("C02",
                            "step-count-not-incremented",
                            "step-count-not-incremented",
                            "step count did not advance by one over the step: pre "
                                + std::to_string(b.num_steps) + " " + fmt_slot(f, s, c));
            }
            if (ended)
            {
                if (finished[a.event].count(a.track) && opts.c02)
                    out.violate("C02",
                                "track-ended-twice",
                                "track-ended-twice",
                                "track ended a second time: " + fmt_slot(f, s, c));
                finished[a.event].insert(a.track);
                slot_has[s] = false;
                last_post.erase(tk);
                expected_steps.erase(tk);
            }
            else
            {
                expected_steps[tk] = c.num_steps;
                last_post[tk] = c;
                last_post[tk].secondaries.clear();
            }
            for (auto const& sec : c.secondaries)
            {
                if (sec.particle == kNone)
                    continue;
                pending_sec.insert(
                    init_key(a.event, a.track, sec.particle, sec.energy, c.pos, sec.dir, c.time));
                if (opts.c01 && !(sec.energy > 0))
                {
                    // Recorded regime: the track lost all its energy inside the
                    // step (deposit == pre-step energy) and was then forced into
                    // a discrete interaction sampled from the PRE-step cross
                    // sections, so a model whose cross section is zero at rest
                    // (real Moller-Bhabha, not using the integral approach) was
                    // invoked with zero incident energy.
                    std::string fp = "secondary-nonpositive-energy";
                    if (c.post_action < prob.action_labels.size()
                        && prob.action_labels[c.post_action] == "ioni-moller-bhabha"
                        && b.energy > 0 && c.step_length > 0
                        && c.deposit >= b.energy * (1 - 1e-12))
                        fp += ":moller-bhabha-forced-at-rest-by-pre-step-xs";
                    out.violate("C01",
                                "secondary-nonpositive-energy",
                                fp,
                                "secondary with non-positive energy: " + fmt_slot(f, s, c));
                }
            }
        }

        if (!f.completed)
        {
            model_valid = false;
            continue;
        }

        // -------- after the step: counters --------
        if (opts.c02)
        {
            std::uint32_t occupied = 0, inplace = 0;
            for (std::size_t s = 0; s < f.end_status.size(); ++s)
            {
                int st = f.end_status[s];
                if (st != ST_INACTIVE)
                    ++occupied;
                if (st == ST_INIT)
                    ++inplace;
                if (slot_has[s])
                {
                    if (st != ST_ALIVE || f.end_track[s] != slot_track[s].track
                        || f.end_event[s] != slot_track[s].event)
                        out.violate("C02",
                                    "alive-track-lost-at-end-of-step",
                                    "alive-track-lost-at-end-of-step",
                                    "slot " + std::to_string(s) + " held alive track "
                                        + std::to_string(slot_track[s].track)
                                        + " after post-step but end-of-step status is "
                                        + std::to_string(st) + " track "
                                        + std::to_string((int)f.end_track[s]) + " at step "
                                        + std::to_string(f.step));
                }
                else if (st == ST_ALIVE || st == ST_KILLED || st == ST_ERRORED)
                {
                    out.violate("C02",
                                "dead-slot-not-released",
                                "dead-slot-not-released",
                                "slot " + std::to_string(s) + " has no living track but status "
                                    + std::to_string(st) + " after step " + std::to_string(f.step));
                }
            }
            std::uint32_t pending = pending_prim.size() + pending_sec.size();
            std::uint32_t queued_expected = pending >= inplace ? pending - inplace : 0;
            if (f.res_alive != occupied)
                out.violate("C02",
                            "counter-alive",
                            "counter-alive",
                            "reported alive=" + std::to_string(f.res_alive) + " but "
                                + std::to_string(occupied) + " slots are occupied after step "
                                + std::to_string(f.step));
            if (f.res_queued != queued_expected)
                out.violate("C02",
                            "counter-queued",
                            "counter-queued",
                            "reported queued=" + std::to_string(f.res_queued) + " but model has "
                                + std::to_string(queued_expected) + " pending after step "
                                + std::to_string(f.step));
            if (f.res_generated != f.n_primaries)
                out.violate("C02",
                            "counter-generated",
                            "counter-generated",
                            "reported generated=" + std::to_string(f.res_generated) + " but "
                                + std::to_string(f.n_primaries) + " primaries were inserted at step "
                                + std::to_string(f.step));
        }
    }

    // ---- end of plan ----
    if (opts.budget_exhausted && opts.c02)
    {
        // Liveness as progress: the step budget is a cost cap, not a bound the
        // property states (a shower of many tracks making centimetre steps
        // through a large world legitimately needs more).  Running out of
        // budget is a violation only if the last window shows no progress at
        // all: the same tracks in the same slots with the same position,
        // energy and time, and the same number of queued initializers.
        bool progress = history_made_progress(h);
        if (!progress)
            out.violate("C02",
                        "no-termination",
                        "no-termination",
                        "stepping loop did not reach queued = alive = 0 within the step budget of "
                            + std::to_string(opts.step_budget)
                            + " and made no progress over its last 2000 steps (same tracks, "
                              "positions, energies, times and queue length)");
        else
            out.count("step_budget_exhausted_with_progress_(inconclusive)");
    }
    if (opts.expect_complete && model_valid && !opts.budget_exhausted)
    {
        if (opts.c02)
        {
            if (!pending_prim.empty() || !pending_sec.empty())
                out.violate("C02",
                            "initializer-never-tracked",
                            "initializer-never-tracked",
                            std::to_string(pending_prim.size()) + " primaries and "
                                + std::to_string(pending_sec.size())
                                + " secondaries never became tracks");
            for (std::size_t s = 0; s < slot_has.size(); ++s)
                if (slot_has[s])
                    out.violate("C02",
                                "track-never-ended",
                                "track-never-ended",
                                "loop ended with a live track in slot " + std::to_string(s));
            for (auto const& kv : known)
                for (auto t : kv.second)
                    if (!finished[kv.first].count(t))
                        out.violate("C02",
                                    "track-never-ended",
                                    "track-never-ended",
                                    "track " + std::to_string(t) + " of event "
                                        + std::to_string(kv.first) + " never ended");
        }
        if (opts.c01)
        {
            for (auto const& kv : balance)
            {
                Balance const& b = kv.second;
                // rounding bound for a sequential sum of n terms
                double tol = (64 + b.n_terms + b.n_prim) * EPS * b.abs_sum + 1e-12;
                out.count("event_balance_checks");
                if (!(std::fabs(b.q_in - (b.dep + b.esc)) <= tol))
                {
                    std::ostringstream os;
                    os.precision(17);
                    os << "event " << kv.first << ": primaries " << b.q_in << " != deposited "
                       << b.dep << " + escaped " << b.esc << " (diff "
                       << (b.q_in - b.dep - b.esc) << ", tol " << tol << ")";
                    out.violate("C01", "event-energy-imbalance", "event-energy-imbalance", os.str());
                }
            }
            for (auto const& kv : tbal)
            {
                TBalance const& t = kv.second;
                if (!t.ended)
                    continue;
                // energy lost over its steps = deposited + given to direct secondaries
                double lost = t.q_first - t.q_last;
                double tol = (64 + t.n_terms) * EPS * (t.abs_sum + std::fabs(t.q_first)) + 1e-12;
                if (!(std::fabs(lost - (t.dep + t.sec)) <= tol))
                {
                    std::ostringstream os;
                    os.precision(17);
                    os << "track " << kv.first.track << " of event " << kv.first.event
                       << ": lost " << lost << " != deposited " << t.dep << " + secondaries "
                       << t.sec;
                    out.violate("C01", "track-energy-imbalance", "track-energy-imbalance", os.str());
                }
            }
        }
    }

    // ---- C17: delivered steps vs observed steps ----
    if (opts.c17 && !prob.callbacks.empty())
    {
        // Union of detector volumes; nonzero filter only if all agree
        std::set<std::uint32_t> detvols;
        bool all_nonzero = true;
        bool any_det = false;
        for (auto const& cb : prob.callbacks)
        {
            for (auto v : cb.detector_volumes)
                detvols.insert(v);
            any_det = any_det || !cb.detector_volumes.empty();
            all_nonzero = all_nonzero && cb.nonzero_edep;
        }
        for (auto v : prob.calo_volumes)
        {
            detvols.insert(v);
            any_det = true;
        }
        // SimpleCalo always asks for nonzero deposition
        celeritas::StepSelection usel;
        for (auto const& cb : prob.callbacks)
            usel |= cb.selection;
        if (!prob.calo_volumes.empty())
        {
            usel.energy_deposition = true;
            usel.points[celeritas::StepPoint::pre].volume_id = true;
        }

        for (std::size_t ci = 0; ci < prob.callbacks.size(); ++ci)
        {
            // index delivered rows by (step, slot)
            std::map<std::pair<std::uint32_t, std::uint32_t>, Delivered const*> rows;
            if (ci < h.delivered.size())
            {
                for (auto const& d : h.delivered[ci])
                {
                    auto key = std::make_pair(d.step, d.slot);
                    if (rows.count(key))
                        out.violate("C17",
                                    "step-delivered-twice",
                                    "step-delivered-twice",
                                    "callback " + std::to_string(ci) + " got step "
                                        + std::to_string(d.step) + " slot " + std::to_string(d.slot)
                                        + " twice");
                    rows[key] = &d;
                }
            }
            std::size_t expected_rows = 0;
            std::uint32_t calls_expected = 0;
            for (auto const& f : h.frames)
            {
                auto const& pre = f.obs[(int)Point::pre];
                auto const& post = f.obs[(int)Point::post];
                if (post.empty() || pre.empty())
                    continue;
                ++calls_expected;
                for (std::size_t s = 0; s < post.size(); ++s)
                {
                    SlotObs const& b = pre[s];
                    SlotObs const& c = post[s];
                    if (!c.active())
                        continue;
                    if (any_det)
                    {
                        if (!detvols.count(b.volume))
                            continue;
                        if (all_nonzero && c.deposit == 0)
                            continue;
                    }
                    ++expected_rows;
                    auto it = rows.find({f.step, (std::uint32_t)s});
                    if (it == rows.end())
                    {
                        out.violate("C17",
                                    "step-not-delivered",
                                    "step-not-delivered",
                                    "callback " + std::to_string(ci)
                                        + " did not receive a step that happened: "
                                        + fmt_slot(f, s, c));
                        continue;
                    }
                    Delivered const& d = *it->second;
                    rows.erase(it);
                    auto bad = [&](char const* field) {
                        out.violate("C17",
                                    std::string("delivered-field-mismatch"),
                                    std::string("delivered-field-mismatch:") + field,
                                    "callback " + std::to_string(ci) + " field '" + field
                                        + "' differs from the track's state: "
                                        + fmt_slot(f, s, c));
                    };
                    if (d.track != c.track)
                        bad("track_id");
                    if (usel.event_id && d.event != c.event)
                        bad("event_id");
                    if (usel.parent_id && d.parent != c.parent)
                        bad("parent_id");
                    if (usel.track_step_count && d.step_count != c.num_steps)
                        bad("track_step_count");
                    if (usel.action_id && d.action != c.post_action)
                        bad("action_id");
                    if (usel.step_length && bits(d.step_length) != bits(c.step_length))
                        bad("step_length");
                    if (usel.particle && d.particle != c.particle)
                        bad("particle");
                    if (usel.energy_deposition && bits(d.deposit) != bits(c.deposit))
                        bad("energy_deposition");
                    SlotObs const* pts[2] = {&b, &c};
                    for (int p = 0; p < 2; ++p)
                    {
                        auto const& sel = usel.points[p == 0 ? celeritas::StepPoint::pre
                                                             : celeritas::StepPoint::post];
                        SlotObs const& o = *pts[p];
                        char const* pn = p == 0 ? "pre." : "post.";
                        if (sel.time && bits(d.pt[p].time) != bits(o.time))
                            bad((std::string(pn) + "time").c_str());
                        if (sel.energy && bits(d.pt[p].energy) != bits(o.energy))
                            bad((std::string(pn) + "energy").c_str());
                        if (sel.pos)
                            for (int k = 0; k < 3; ++k)
                                if (bits(d.pt[p].pos[k]) != bits(o.pos[k]))
                                    bad((std::string(pn) + "pos").c_str());
                        if (sel.dir)
                            for (int k = 0; k < 3; ++k)
                                if (bits(d.pt[p].dir[k]) != bits(o.dir[k]))
                                    bad((std::string(pn) + "dir").c_str());
                        if (sel.volume_id)
                        {
                            std::uint32_t v = o.outside ? kNone : o.volume;
                            if (o.status == ST_ERRORED)
                                continue;
                            if (d.pt[p].volume != v)
                                bad((std::string(pn) + "volume_id").c_str());
                        }
                    }
                }
            }
            out.count("c17_rows_compared", expected_rows);
            if (!rows.empty())
            {
                auto const& d = *rows.begin()->second;
                out.violate("C17",
                            "phantom-step-delivered",
                            "phantom-step-delivered",
                            "callback " + std::to_string(ci) + " received "
                                + std::to_string(rows.size())
                                + " rows that match no step that happened, e.g. step "
                                + std::to_string(d.step) + " slot " + std::to_string(d.slot)
                                + " track " + std::to_string((int)d.track));
            }
            std::uint32_t calls = ci < h.callback_calls.size() ? h.callback_calls[ci] : 0;
            if (calls != calls_expected)
                out.violate("C17",
                            "callback-call-count",
                            "callback-call-count",
                            "callback " + std::to_string(ci) + " was invoked "
                                + std::to_string(calls) + " times over "
                                + std::to_string(calls_expected) + " steps");
        }
    }
    (void)discrete_action;
}

}  // namespace vsim

#include "celeritas/user/ActionDiagnostic.hh"
#include "celeritas/user/SimpleCalo.hh"
#include "celeritas/user/StepDiagnostic.hh"

namespace vsim
{
void check_tallies(History const& h, Problem const& prob, RunResult& out)
{
    check_tallies(std::vector<History const*>{&h}, prob, out, "C17");
}

void check_tallies(std::vector<History const*> const& hs, Problem const& prob, RunResult& out,
                   std::string const& property)
{
    std::size_t num_slots = hs.empty() ? 0 : hs[0]->num_slots;
    constexpr int ST_ALIVE_ = 2, ST_KILLED_ = 4;
    auto bits_ = [](double d) {
        std::uint64_t u;
        std::memcpy(&u, &d, sizeof(u));
        return u;
    };
    if (prob.calo)
    {
        std::vector<double> expected(prob.calo_volumes.size(), 0.0);
        for (History const* hp : hs)
        {
            // each stream accumulates its own tally in step/slot order; the
            // total adds the per-stream tallies in stream order
            std::vector<double> part(prob.calo_volumes.size(), 0.0);
            bool any = false;
            for (auto const& f : hp->frames)
            {
                auto const& pre = f.obs[(int)Point::pre];
                auto const& post = f.obs[(int)Point::post];
                if (pre.empty() || post.empty())
                    continue;
                any = true;
                for (std::size_t s = 0; s < post.size(); ++s)
                {
                    if (!post[s].active() || post[s].deposit == 0)
                        continue;
                    for (std::size_t d = 0; d < prob.calo_volumes.size(); ++d)
                        if (pre[s].volume == prob.calo_volumes[d])
                            part[d] += post[s].deposit;
                }
            }
            if (any)
                for (std::size_t d = 0; d < part.size(); ++d)
                    expected[d] += part[d];
        }
        auto got = prob.calo->calc_total_energy_deposition();
        out.count("calo_detectors_compared", expected.size());
        for (std::size_t d = 0; d < expected.size(); ++d)
        {
            if (d >= got.size() || bits_(got[d]) != bits_(expected[d]))
            {
                std::ostringstream os;
                os.precision(17);
                os << "calorimeter tally of detector " << d << " (volume "
                   << prob.calo_volumes[d] << ") is " << (d < got.size() ? got[d] : -1.0)
                   << " but the steps that happened deposited " << expected[d];
                out.violate(property, "calo-tally-mismatch", "calo-tally-mismatch", os.str());
            }
        }
    }
    if (prob.action_diag)
    {
        std::map<std::pair<std::uint32_t, std::uint32_t>, std::uint64_t> expected;
        std::uint64_t total = 0;
        for (History const* hp : hs)
            for (auto const& f : hp->frames)
            {
                for (auto const& s : f.obs[(int)Point::post])
                {
                    if (s.status == ST_ALIVE_ || s.status == ST_KILLED_)
                    {
                        ++expected[{s.particle, s.post_action}];
                        ++total;
                    }
                }
            }
        auto got = prob.action_diag->calc_actions();
        std::uint64_t got_total = 0;
        for (std::size_t p = 0; p < got.size(); ++p)
            for (std::size_t a = 0; a < got[p].size(); ++a)
            {
                got_total += got[p][a];
                auto it = expected.find({(std::uint32_t)p, (std::uint32_t)a});
                std::uint64_t e = it == expected.end() ? 0 : it->second;
                if (got[p][a] != e)
                {
                    std::string lab = a < prob.action_labels.size() ? prob.action_labels[a] : "?";
                    out.violate(property,
                                "action-diagnostic-mismatch",
                                "action-diagnostic-mismatch",
                                "action diagnostic counts " + std::to_string(got[p][a])
                                    + " steps for particle " + std::to_string(p) + " action '"
                                    + lab + "' but " + std::to_string(e) + " happened (slots="
                                    + std::to_string(num_slots) + ")");
                }
            }
        out.count("action_diag_steps_compared", total);
        if (got.empty() && total > 0)
            out.violate(property,
                        "action-diagnostic-mismatch",
                        "action-diagnostic-mismatch",
                        "action diagnostic has no data although " + std::to_string(total)
                            + " steps happened");
    }
    if (prob.step_diag)
    {
        auto got = prob.step_diag->calc_steps();
        std::size_t nb = got.empty() ? 0 : got[0].size();
        std::map<std::pair<std::uint32_t, std::uint32_t>, std::uint64_t> expected;
        for (History const* hp : hs)
            for (auto const& f : hp->frames)
                for (auto const& s : f.obs[(int)Point::post])
                    if (s.status == ST_KILLED_ && nb > 0)
                        ++expected[{s.particle, std::min<std::uint32_t>(s.num_steps, nb - 1)}];
        for (std::size_t p = 0; p < got.size(); ++p)
            for (std::size_t b = 0; b < got[p].size(); ++b)
            {
                auto it = expected.find({(std::uint32_t)p, (std::uint32_t)b});
                std::uint64_t e = it == expected.end() ? 0 : it->second;
                if (got[p][b] != e)
                    out.violate(property,
                                "step-diagnostic-mismatch",
                                "step-diagnostic-mismatch",
                                "step diagnostic counts " + std::to_string(got[p][b])
                                    + " tracks of particle " + std::to_string(p) + " ending after "
                                    + std::to_string(b) + " steps but " + std::to_string(e)
                                    + " did");
            }
    }
}
}  // namespace vsim
