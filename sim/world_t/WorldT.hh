#pragma once
#include "core/World.hh"
#include "Oracles.hh"
#include "Problem.hh"

namespace vsim
{
class WorldT : public World
{
  public:
    std::string name() const override { return "T (transport)"; }
    json make_plan(CheckSpec const& spec, std::uint64_t index) const override;
    RunResult execute(json const& plan) const override;
    std::vector<json> shrink(json const& plan) const override;
    json describe(CheckSpec const& spec) const override;
    std::uint64_t default_runs(CheckSpec const& spec) const override;
};
}  // namespace vsim
