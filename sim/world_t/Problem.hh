// Build a complete celeritas problem (CoreParams + recorder plumbing) from the
// "problem" and "config" sections of a world-T plan.
#pragma once

#include <map>
#include <memory>
#include <string>
#include <vector>
#include <nlohmann/json.hpp>

#include "celeritas/Types.hh"
#include "celeritas/geo/GeoFwd.hh"
#include "celeritas/global/CoreParams.hh"

#include "Recorder.hh"

namespace celeritas
{
class ActionDiagnostic;
class StepDiagnostic;
class SimpleCalo;
class StepCollector;
}  // namespace celeritas

namespace vsim
{
using json = nlohmann::json;

//! Cached immutable geometry (shared across runs in one worker process)
std::shared_ptr<celeritas::GeoParams const> load_geometry(json const& geo);

//! Host-side point locator built on the real navigator (used to place primaries)
class GeoProbe
{
  public:
    explicit GeoProbe(std::shared_ptr<celeritas::GeoParams const> geo);
    ~GeoProbe();
    //! Volume id at a point (kNone if outside or failed)
    std::uint32_t locate(double const pos[3]) const;
    //! Safety at a point inside
    double safety(double const pos[3]) const;
    celeritas::GeoParams const& params() const { return *geo_; }

  private:
    struct Impl;
    std::shared_ptr<celeritas::GeoParams const> geo_;
    std::unique_ptr<Impl> impl_;
};

//! Extra simulator-owned step action for fault injection (throw / pre-fill)
class FaultAction;

struct FaultCtl
{
    // Abort: throw from a user action at (global step, order)
    long abort_step{-1};
    int abort_point{0};  //!< Point
    // Secondary-stack exhaustion: at user_pre of global step `stack_step`,
    // raise the stack size so that only `stack_free` cells remain
    long stack_step{-1};
    long stack_free{0};
    bool stack_every_step{false};
    // fired counters
    long aborts_fired{0};
    long stack_fired{0};
    // Slot permutation (reindex_shuffle only): rewritten before every step
    bool permute{false};
};

struct Problem
{
    std::shared_ptr<celeritas::CoreParams const> core;
    std::shared_ptr<RecorderHub> hub;
    std::shared_ptr<std::vector<FaultCtl>> faults;  //!< per stream
    std::shared_ptr<celeritas::ActionDiagnostic> action_diag;
    std::shared_ptr<celeritas::StepDiagnostic> step_diag;
    std::shared_ptr<celeritas::SimpleCalo> calo;
    std::vector<CallbackSpec> callbacks;
    std::vector<std::string> particle_names;
    std::vector<double> masses;  //!< per particle id [MeV]
    std::uint32_t positron_id{kNone};
    std::map<std::string, std::uint32_t> action_ids;  //!< label -> id
    std::vector<std::string> action_labels;  //!< id -> label
    std::vector<bool> is_model_action;  //!< id -> action is a physics model (an interaction)
    unsigned slots{0};
    bool status_checker{false};
    std::vector<std::uint32_t> calo_volumes;
};

//! Build params for the plan; throws celeritas::RuntimeError on invalid input
Problem build_problem(json const& problem, json const& config, unsigned max_streams = 1);

}  // namespace vsim
