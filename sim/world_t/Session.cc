#include "Session.hh"

#include "corecel/Assert.hh"
#include "corecel/cont/Span.hh"
#include "celeritas/phys/Primary.hh"

#include "PlanGen.hh"

using namespace celeritas;

namespace vsim
{
namespace
{
std::vector<Primary> to_primaries(std::vector<PrimRec> const& v)
{
    std::vector<Primary> out;
    for (auto const& r : v)
    {
        Primary p;
        p.particle_id = ParticleId{r.particle};
        p.energy = units::MevEnergy{r.energy};
        p.position = {r.pos[0], r.pos[1], r.pos[2]};
        p.direction = {r.dir[0], r.dir[1], r.dir[2]};
        p.time = r.time;
        p.event_id = EventId{r.event};
        out.push_back(p);
    }
    return out;
}
}  // namespace

Session::Session(Problem& prob, unsigned stream, bool action_times)
    : prob_(prob), stream_(stream), rec_(prob.slots)
{
    StepperInput sinp;
    sinp.params = prob.core;
    sinp.stream_id = StreamId{stream};
    sinp.num_track_slots = prob.slots;
    sinp.action_times = action_times;
    stepper_ = std::make_unique<Stepper<MemSpace::host>>(sinp);
    prob_.hub->by_stream[stream_] = &rec_;
}

Session::~Session()
{
    prob_.hub->by_stream[stream_] = nullptr;
}

StepperResult Session::do_step(std::vector<PrimRec> prims)
{
    if (before_step)
        before_step(*this);
    std::size_t np = prims.size();
    auto primaries = to_primaries(prims);
    rec_.begin_step(std::move(prims), after_reset_, after_reseed_);
    rec_.cur->after_kill = after_kill_;
    after_reset_ = false;
    after_reseed_ = false;
    after_kill_ = false;
    peak_init_ = std::max<std::uint32_t>(peak_init_, prev_end_init_ + np);
    StepperResult res;
    try
    {
        if (np)
            res = (*stepper_)(make_span(primaries));
        else
            res = (*stepper_)();
    }
    catch (std::exception const& e)
    {
        rec_.end_step_error(e.what());
        throw;
    }
    rec_.end_step_ok(*prob_.core,
                     dynamic_cast<CoreState<MemSpace::host> const&>(stepper_->state()),
                     res.generated,
                     res.queued,
                     res.active,
                     res.alive);
    prev_end_init_ = rec_.hist.frames.back().end_counters.initializers;
    peak_init_ = std::max(peak_init_, prev_end_init_);
    ++total_steps_;
    return res;
}

template<class F>
EventOutcome Session::guarded(F&& f)
{
    EventOutcome out;
    try
    {
        f(out);
    }
    catch (RuntimeError const& e)
    {
        out.threw = true;
        out.threw_runtime_error = true;
        out.error = e.what();
    }
    catch (std::exception const& e)
    {
        out.threw = true;
        out.error = e.what();
        out.threw_injected = out.error.find("vsim: injected abort") != std::string::npos;
    }
    return out;
}

EventOutcome Session::run_event(json const& op, long budget)
{
    return guarded([&](EventOutcome& out) {
        if (op.contains("reseed"))
            this->reseed(op["reseed"].get<std::uint64_t>());
        auto const& batches = op.at("batches");
        std::size_t nb = batches.size();
        std::size_t bi = 0;
        long local = 0;
        StepperResult res;
        res.alive = 1;
        while ((res || bi < nb) && out.steps < budget)
        {
            std::vector<PrimRec> prims;
            if (bi < nb && (batches[bi].value("at", 0) <= local || !res))
            {
                prims = prims_from_json(batches[bi].at("primaries"));
                ++bi;
            }
            res = this->do_step(std::move(prims));
            ++local;
            ++out.steps;
            if (op.contains("kill_at") && op["kill_at"].get<long>() == local && res)
            {
                // legal user action: abandon everything in flight
                this->kill_active();
            }
        }
        if (res || bi < nb)
            out.budget_exhausted = true;
        else
            out.completed = true;
    });
}

EventOutcome Session::drain(long budget)
{
    return guarded([&](EventOutcome& out) {
        StepperResult res;
        res.alive = 1;
        while (res && out.steps < budget)
        {
            res = this->do_step({});
            ++out.steps;
        }
        out.completed = !res;
        out.budget_exhausted = static_cast<bool>(res);
    });
}

void Session::reseed(std::uint64_t id)
{
    stepper_->reseed(UniqueEventId{id});
    after_reseed_ = true;
}

void Session::reset()
{
    stepper_->reset_state();
    after_reset_ = true;
    prev_end_init_ = 0;
}

void Session::warm_up()
{
    stepper_->warm_up();
}

void Session::kill_active()
{
    stepper_->kill_active();
    after_kill_ = true;
}

}  // namespace vsim
