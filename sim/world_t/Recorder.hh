// Recorder: simulator-owned observer actions at user_start / user_pre /
// user_post read every slot's state through the library's public views and
// append to an in-memory history.  A second, independent route records what
// the library delivers to StepInterface callbacks.
#pragma once

#include <array>
#include <cstdint>
#include <functional>
#include <memory>
#include <string>
#include <vector>

#include "corecel/sys/ActionInterface.hh"
#include "celeritas/Types.hh"
#include "celeritas/global/ActionInterface.hh"
#include "celeritas/user/StepInterface.hh"

#include "core/Rng.hh"

namespace vsim
{
constexpr std::uint32_t kNone = 0xffffffffu;

enum class Point : int { start = 0, pre = 1, post = 2 };

struct SecObs
{
    std::uint32_t particle{kNone};  //!< kNone for a cleared (sub-cut) cell
    double energy{0};
    double dir[3]{0, 0, 0};
};

//! State of one slot at one observation point
struct SlotObs
{
    std::int32_t status{0};  //!< TrackStatus as int (0 = inactive)
    std::uint32_t track{kNone}, parent{kNone}, event{kNone};
    std::uint32_t num_steps{0};
    std::uint32_t particle{kNone};
    std::uint32_t volume{kNone};
    std::uint32_t material{kNone};
    std::uint32_t post_action{kNone}, along_action{kNone};
    std::uint8_t outside{0}, on_boundary{0};
    double energy{0};
    double time{0};
    double step_length{0};
    double deposit{0};
    double mfp{0};
    double pos[3]{0, 0, 0};
    double dir[3]{0, 0, 0};
    std::vector<SecObs> secondaries;  //!< only filled at Point::post

    bool active() const { return status != 0; }
};

struct Counters
{
    std::uint32_t initializers{0}, vacancies{0}, active{0}, alive{0},
        secondaries{0}, generated{0};
};

struct StackObs
{
    std::uint32_t size{0}, capacity{0};
};

struct PrimRec
{
    std::uint32_t event{kNone}, particle{kNone};
    double energy{0}, time{0};
    double pos[3]{0, 0, 0}, dir[3]{0, 0, 0};
};

//! Everything observed during one Stepper::operator() call
struct Frame
{
    std::vector<PrimRec> primaries;  //!< primaries handed in with this call
    bool after_reset{false};  //!< state was reset/constructed just before
    bool after_reseed{false};  //!< reseed() (track ids restart) just before
    bool after_kill{false};  //!< kill_active() was called just before this step
    std::uint32_t step{0};  //!< global step index on this stream
    std::uint32_t n_primaries{0};  //!< primaries handed in with this call
    std::array<std::vector<SlotObs>, 3> obs;  //!< per point, per slot
    std::array<Counters, 3> counters;
    std::array<StackObs, 3> stack;
    // After the step returned:
    std::vector<std::int32_t> end_status;
    std::vector<std::uint32_t> end_track, end_event;
    Counters end_counters;
    std::uint32_t res_generated{0}, res_queued{0}, res_active{0}, res_alive{0};
    bool completed{false};  //!< false if an exception escaped the step
    std::string error;  //!< what() of the escaped exception
};

//! A step as delivered to one StepInterface callback
struct Delivered
{
    std::uint32_t step{0};
    std::uint32_t slot{0};
    std::uint32_t track{kNone}, event{kNone}, parent{kNone};
    std::uint32_t detector{kNone};
    std::uint32_t action{kNone}, particle{kNone}, step_count{0};
    double step_length{0}, deposit{0};
    struct Pt
    {
        double time{0}, energy{0};
        double pos[3]{0, 0, 0}, dir[3]{0, 0, 0};
        std::uint32_t volume{kNone};
    } pt[2];
};

struct CallbackSpec
{
    celeritas::StepSelection selection;
    std::vector<std::uint32_t> detector_volumes;  //!< empty => no detector filter
    bool nonzero_edep{false};
};

struct History
{
    std::uint32_t num_slots{0};
    std::vector<Frame> frames;
    //! delivered[callback] = rows
    std::vector<std::vector<Delivered>> delivered;
    //! number of process_steps calls per callback
    std::vector<std::uint32_t> callback_calls;

    std::uint64_t hash() const;
    //! Hash of one event's track histories only (slot-independent, C06/C07)
    std::uint64_t event_hash(std::uint32_t event) const;
};

class Recorder;

//! Per-stream recorder registry shared by the observer actions
struct RecorderHub
{
    std::vector<Recorder*> by_stream;
    //! Optional hook called by observer actions: (stream, point)
    std::function<void(unsigned, Point)> on_point;
};

class Recorder
{
  public:
    explicit Recorder(std::uint32_t num_slots) { hist.num_slots = num_slots; }
    History hist;
    Frame* cur{nullptr};
    std::uint32_t step_counter{0};

    void begin_step(std::vector<PrimRec> prims, bool after_reset = false, bool after_reseed = false);
    void end_step_ok(celeritas::CoreParams const&,
                     celeritas::CoreState<celeritas::MemSpace::host> const&,
                     std::uint32_t g, std::uint32_t q, std::uint32_t a, std::uint32_t al);
    void end_step_error(std::string what);
    void observe(Point p,
                 celeritas::CoreParams const& params,
                 celeritas::CoreState<celeritas::MemSpace::host>& state);
};

class ObserverAction final : public celeritas::CoreStepActionInterface,
                             public celeritas::ConcreteAction
{
  public:
    ObserverAction(celeritas::ActionId id,
                   Point p,
                   std::shared_ptr<RecorderHub> hub);
    void step(CoreParams const&, CoreStateHost&) const final;
    void step(CoreParams const&, CoreStateDevice&) const final {}
    celeritas::StepActionOrder order() const final;

  private:
    Point point_;
    std::shared_ptr<RecorderHub> hub_;
};

//! StepInterface implementation that copies what it is given
class RecordingCallback final : public celeritas::StepInterface
{
  public:
    RecordingCallback(std::size_t index, CallbackSpec spec, std::shared_ptr<RecorderHub> hub)
        : index_(index), spec_(std::move(spec)), hub_(std::move(hub))
    {
    }
    Filters filters() const final;
    celeritas::StepSelection selection() const final { return spec_.selection; }
    void process_steps(HostStepState) final;
    void process_steps(DeviceStepState) final {}

  private:
    std::size_t index_;
    CallbackSpec spec_;
    std::shared_ptr<RecorderHub> hub_;
};

}  // namespace vsim
