// Simulator-owned physics: a Process/Model pair whose interaction outcome
// (scatter / absorb / unchanged, number, species and energies of secondaries)
// is a pure function of the slot's own RngEngine draws and conserves energy by
// construction.  It allocates through the real StackAllocator and is applied
// by the real InteractionApplier, so the history generator controls "which
// tracks die, how many secondaries each emits, which fall below cut".
#pragma once

#include <memory>
#include <string>
#include <vector>

#include "celeritas/Types.hh"
#include "celeritas/mat/MaterialParams.hh"
#include "celeritas/phys/Model.hh"
#include "celeritas/phys/ParticleParams.hh"
#include "celeritas/phys/Process.hh"

namespace vsim
{
struct StubInteractParams
{
    celeritas::ParticleId self;
    celeritas::ParticleId positron;  //!< may be invalid
    double two_mc2{0};  //!< 2 m_e c^2 [MeV]
    double p_absorb{0.3};
    double p_unchanged{0.05};
    double p_soft{0.3};  //!< probability that a secondary gets a tiny energy
    int kmax{2};  //!< max secondaries per interaction
    double e_floor{0};  //!< below this incident energy: absorb, emit nothing
    std::vector<celeritas::ParticleId> species;  //!< secondary species pool
};

struct StubProcessInput
{
    std::string label;
    celeritas::ParticleId particle;
    bool integral{false};
    double emin{1e-4}, emax{1e3};
    // per material: values at log-spaced knots between emin and emax
    std::vector<std::vector<double>> xs;  //!< may be empty (no discrete part)
    std::vector<std::vector<double>> eloss;  //!< may be empty
    std::vector<std::vector<double>> range;  //!< computed with eloss
    StubInteractParams inter;
    // When non-empty the process builds a REAL celeritas model instead of the
    // stub ("klein_nishina", "moller_bhabha"); step limits stay simulator-owned
    std::string real;
    std::shared_ptr<celeritas::ParticleParams const> particles;
};

class StubModel final : public celeritas::Model
{
  public:
    StubModel(celeritas::ActionId id, StubProcessInput const& inp);
    SetApplicability applicability() const final;
    MicroXsBuilders micro_xs(celeritas::Applicability) const final { return {}; }
    void step(CoreParams const&, CoreStateHost&) const final;
    void step(CoreParams const&, CoreStateDevice&) const final {}
    celeritas::ActionId action_id() const final { return id_; }
    std::string_view label() const final { return label_; }
    std::string_view description() const final { return "simulator-owned stub interaction"; }

  private:
    celeritas::ActionId id_;
    std::string label_;
    celeritas::ParticleId particle_;
    StubInteractParams inter_;
};

class StubProcess final : public celeritas::Process
{
  public:
    explicit StubProcess(StubProcessInput inp) : inp_(std::move(inp)) {}
    VecModel build_models(ActionIdIter start_id) const final;
    StepLimitBuilders step_limits(celeritas::Applicability range) const final;
    bool use_integral_xs() const final { return inp_.integral; }
    std::string_view label() const final { return inp_.label; }

  private:
    StubProcessInput inp_;
};

//! Range table from an energy-loss table the way an importer would build it
std::vector<double>
integrate_range(double emin, double emax, std::vector<double> const& dedx);

}  // namespace vsim
