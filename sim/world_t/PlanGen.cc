// World T: the transport world.  Real Stepper / CoreState / actions / track
// initialisation / along-step / ORANGE navigation, simulator-owned physics.
#include "PlanGen.hh"

#include <cmath>
#include <cstdlib>
#include <iostream>
#include <set>

#include "corecel/Assert.hh"
#include "corecel/cont/Span.hh"
#include "corecel/io/Label.hh"
#include "celeritas/geo/GeoParams.hh"
#include "celeritas/global/Stepper.hh"
#include "celeritas/phys/Primary.hh"

using namespace celeritas;

namespace vsim
{
namespace
{
std::string repo_dir()
{
    return VERIF_REPO_DIR;
}

struct GeoChoice
{
    char const* path;
    double weight;
};

std::vector<GeoChoice> const& geo_choices()
{
    static std::vector<GeoChoice> const v = {
        {"test/geocel/data/two-boxes.org.json", 3},
        {"test/geocel/data/three-spheres.org.json", 3},
        {"test/geocel/data/four-steel-slabs.org.json", 3},
        {"test/geocel/data/one-steel-sphere.org.json", 2},
        {"test/geocel/data/lar-sphere.org.json", 1},
        {"test/geocel/data/lead-box.org.json", 1},
        {"test/geocel/data/field-layers.org.json", 2},
        {"test/geocel/data/simple-cms.org.json", 3},
        {"test/geocel/data/testem15.org.json", 1},
        {"test/geocel/data/testem3-flat.org.json", 1},
        {"test/orange/data/five-volumes.org.json", 2},
        {"test/orange/data/rect-array.org.json", 2},
        {"test/orange/data/nested-rect-arrays.org.json", 2},
        {"test/orange/data/hex-array.org.json", 2},
        {"test/orange/data/inputbuilder-hierarchy.org.json", 2},
        {"test/orange/data/inputbuilder-universes.org.json", 2},
        {"test/orange/data/inputbuilder-globalspheres.org.json", 1},
        {"test/orange/data/inputbuilder-bgspheres.org.json", 1},
        {"test/orange/data/testem3.org.json", 0.5},
    };
    return v;
}

}  // namespace

GeoInfo const& geo_info(std::string const& path)
{
    static std::map<std::string, std::unique_ptr<GeoInfo>> cache;
    auto it = cache.find(path);
    if (it != cache.end())
        return *it->second;
    auto gi = std::make_unique<GeoInfo>();
    gi->geo = load_geometry(json{{"file", path}});
    gi->probe = std::make_unique<GeoProbe>(gi->geo);
    auto const& bb = gi->geo->bbox();
    double scale = 0;
    for (int k = 0; k < 3; ++k)
    {
        double lo = bb.lower()[k], hi = bb.upper()[k];
        if (!std::isfinite(lo) || lo < -1e4)
            lo = -100;
        if (!std::isfinite(hi) || hi > 1e4)
            hi = 100;
        gi->lo[k] = lo;
        gi->hi[k] = hi;
        scale = std::max(scale, hi - lo);
    }
    gi->scale = scale;
    auto const& vols = gi->geo->volumes();
    for (auto v : range(VolumeId{vols.size()}))
        gi->vol_names.push_back(vols.at(v).name);
    auto& ref = *gi;
    cache[path] = std::move(gi);
    return ref;
}

namespace
{
std::vector<double> random_table(Rng& r, int n, double base, double spread)
{
    std::vector<double> v(n);
    for (auto& x : v)
        x = base * r.log_uniform(1 / spread, spread);
    return v;
}

json selection_json(Rng& r, bool all)
{
    auto pt = [&](bool a) {
        return json{{"time", a || r.coin(0.5)},
                    {"pos", a || r.coin(0.5)},
                    {"dir", a || r.coin(0.5)},
                    {"volume_id", a || r.coin(0.5)},
                    {"energy", a || r.coin(0.5)}};
    };
    json j;
    j["pre"] = pt(all);
    j["post"] = pt(all);
    j["event_id"] = all || r.coin(0.5);
    j["parent_id"] = all || r.coin(0.5);
    j["track_step_count"] = all || r.coin(0.5);
    j["action_id"] = all || r.coin(0.5);
    j["step_length"] = all || r.coin(0.5);
    j["particle"] = all || r.coin(0.5);
    j["energy_deposition"] = true;
    return j;
}

}  // namespace

//---------------------------------------------------------------------------//
GenCtx gen_problem_config(CheckSpec const& spec, Rng const& root, GenOpts const& go)
{
    GenCtx ctx;
    Rng rp = root.sub("plan");
    Rng rg = root.sub("geom");
    Rng rph = root.sub("phys");

    // ---- geometry ----
    std::vector<double> w;
    for (auto const& g : geo_choices())
        w.push_back(g.weight);
    auto const& gc = geo_choices()[rg.weighted(w)];
    std::string gpath = repo_dir() + "/" + gc.path;
    GeoInfo const& gi = geo_info(gpath);
    json problem;
    problem["geometry"] = {{"file", gpath}};
    unsigned nmat = 1 + rg.below(3);
    problem["n_materials"] = nmat;
    json vol_mat = json::array();
    for (auto const& name : gi.vol_names)
    {
        bool exterior = !name.empty() && name.front() == '[';
        vol_mat.push_back(exterior ? -1 : (int)rg.below(nmat));
    }
    problem["vol_mat"] = vol_mat;
    double L = gi.scale;

    // ---- particles ----
    // Real-physics mode (a third of the problems): on top of the stub
    // processes the problem gets REAL celeritas models in the stepping loop --
    // Klein-Nishina for gammas, Moller-Bhabha for e-/e+ (cross section zero up
    // to a knot above twice the electron production cut, as an importer's
    // table would be) and the real positron annihilation process with its
    // on-the-fly cross section (also at rest).  Drawn from its own stream so
    // the other two thirds of the plan space are unchanged.
    Rng rreal = root.sub("real");
    bool real_phys = rreal.coin(0.34);
    if (char const* e = std::getenv("VERIF_REAL"))
        real_phys = e[0] == '1';
    // C01 only, a sixth of the real-physics plans: ionisation without the
    // integral approach (see the recorded finding below)
    bool real_nonintegral = real_phys && spec.property == "C01" && rreal.coin(0.17);
    bool with_positron = rph.coin(0.7) || real_phys;
    std::vector<std::string> particles = {"gamma", "electron"};
    if (with_positron)
        particles.push_back("positron");
    problem["particles"] = particles;

    // ---- physics ----
    double emin = rph.coin(0.5) ? 1e-4 : 1e-3;
    double emax = rph.coin(0.5) ? 1e2 : 1e3;
    double e_hi = emax * (rph.coin(0.2) ? 1.0 : rph.log_uniform(1e-2, 1.0));  // primary energy scale
    double e_floor = e_hi * rph.log_uniform(1e-3, 3e-2);
    std::string along_kind;
    {
        double u = rph.uniform();
        along_kind = u < 0.15 ? "neutral" : (u < 0.8 ? "linear" : "field");
    }
    if (spec.property == "C08")
        along_kind = "field";
    if (!go.force_along.empty())
        along_kind = go.force_along;
    bool charged_eloss = along_kind != "neutral";
    json procs = json::array();
    int pcount = 0;
    for (auto const& pname : particles)
    {
        bool charged = pname != "gamma";
        int nproc = 1 + (int)rph.below(2);
        // Electrons only: half of the problems have zero cross section at the
        // lowest knot(s), so the particle has no at-rest process and a stopped
        // electron ends by range.  Positrons always keep an at-rest process
        // (a physics list without e+ annihilation is not a valid problem).
        bool zero_low_xs = pname == "electron" && charged_eloss && rph.coin(0.5);
        if (real_nonintegral)
        {
            // keep an at-rest process so that the zero-energy electron emitted
            // in the recorded regime ends at once instead of multiplying
            zero_low_xs = false;
        }
        for (int ip = 0; ip < nproc; ++ip)
        {
            json pr;
            pr["label"] = "p" + std::to_string(pcount++) + "-" + pname;
            pr["particle"] = pname;
            pr["emin"] = emin;
            pr["emax"] = emax;
            int nk = 3 + (int)rph.below(8);
            double mfp = L * rph.log_uniform(0.03, 3.0);
            json xs = json::array();
            for (unsigned m = 0; m < nmat; ++m)
            {
                auto t = random_table(rph, nk, 1 / mfp * rph.log_uniform(0.3, 3), 2.0);
                if (zero_low_xs)
                {
                    t[0] = 0;
                    if (nk > 4 && rph.coin(0.5))
                        t[1] = 0;
                }
                xs.push_back(t);
            }
            pr["xs"] = xs;
            bool has_eloss = charged && charged_eloss && ip == 0;
            if (has_eloss)
            {
                // range of a particle at e_hi between 0.05 L and 5 L
                double rng_len = L * rph.log_uniform(0.05, 5.0);
                json el = json::array();
                for (unsigned m = 0; m < nmat; ++m)
                    el.push_back(random_table(rph, nk, e_hi / rng_len * rph.log_uniform(0.5, 2), 1.6));
                pr["eloss"] = el;
                pr["integral"] = rph.coin(0.5);
            }
            else
            {
                pr["eloss"] = nullptr;
                pr["integral"] = false;
            }
            json in;
            in["p_absorb"] = rph.uniform(0.15, 0.7);
            in["p_unchanged"] = rph.coin(0.3) ? rph.uniform(0, 0.3) : 0.0;
            in["p_soft"] = rph.uniform(0, 0.5);
            in["kmax"] = (int)rph.below(4);
            in["e_floor"] = e_floor;
            std::vector<std::string> sp;
            for (auto const& q : particles)
                if (rph.coin(0.7))
                    sp.push_back(q);
            if (sp.empty())
                sp.push_back("gamma");
            in["species"] = sp;
            pr["inter"] = in;
            procs.push_back(pr);
        }
    }
    problem["procs"] = procs;

    // cuts
    json cut;
    cut["apply"] = rph.coin(0.5);
    for (auto const& pname : particles)
    {
        json arr = json::array();
        for (unsigned m = 0; m < nmat; ++m)
            arr.push_back(rph.coin(0.2) ? 0.0 : e_hi * rph.log_uniform(1e-5, 2.0));
        cut[pname] = arr;
    }
    if (real_phys)
    {
        // Electron production cut first (not below 3e-3 of the primary energy
        // scale: the stub tables do not scale the ionisation cross section with
        // 1/cut as real tables do, so a tiny cut would mean 1e5+ deltas per
        // primary), then the first knot above twice the cut.
        int nk = 4 + (int)rreal.below(8);
        double ecut = e_hi * rreal.log_uniform(3e-3, 0.3);
        auto knot = [&](int k) { return emin * std::pow(emax / emin, double(k) / (nk - 1)); };
        int kz = 0;
        while (kz < nk - 2 && knot(kz) * 0.999 < 2 * ecut)
            ++kz;
        if (knot(kz) * 0.999 < 2 * ecut)
            ecut = 0.5 * knot(kz) * rreal.uniform(0.5, 0.999);
        json arr = json::array();
        for (unsigned m = 0; m < nmat; ++m)
            arr.push_back(ecut);
        cut["electron"] = arr;
        auto add_real = [&](char const* label, char const* particle, char const* kind, int zero_to) {
            json pr;
            pr["label"] = label;
            pr["particle"] = particle;
            pr["real"] = kind;
            pr["emin"] = emin;
            pr["emax"] = emax;
            double mfp = L * rreal.log_uniform(0.3, 3.0);
            json xs = json::array();
            for (unsigned m = 0; m < nmat; ++m)
            {
                auto t = random_table(rreal, nk, 1 / mfp * rreal.log_uniform(0.5, 2), 2.0);
                for (int i = 0; i <= zero_to; ++i)
                    t[i] = 0;
                xs.push_back(t);
            }
            pr["xs"] = xs;
            pr["eloss"] = nullptr;
            // Ionisation uses the integral approach as the real process does by
            // default.  Without it a track that stops inside the step is forced
            // into a discrete interaction chosen from the PRE-step cross
            // sections, so Moller-Bhabha is invoked at zero energy (recorded
            // finding C01 ...forced-at-rest-by-pre-step-xs); that regime stays
            // reachable in a sixth of the real-physics plans of C01 only.
            pr["integral"] = charged_eloss && std::string(particle) != "gamma" && !real_nonintegral;
            procs.push_back(pr);
        };
        add_real("real-compton", "gamma", "klein_nishina", -1);
        add_real("real-ioni", "electron", "moller_bhabha", kz);
        json an;
        an["label"] = "real-annihil";
        an["particle"] = "positron";
        an["real"] = "eplus_annihilation";
        procs.push_back(an);
        problem["procs"] = procs;
        problem["real_physics"] = true;
    }
    bool real_keep_integral = real_phys && !real_nonintegral;
    problem["cut"] = cut;

    json opt;
    opt["lowest_electron_energy"] = e_hi * rph.log_uniform(1e-5, 1e-1);
    opt["linear_loss_limit"] = rph.coin(0.2) ? (rph.coin(0.5) ? 0.0 : 1.0) : rph.uniform(0, 0.2);
    opt["min_range"] = L * rph.log_uniform(1e-4, 1.0);
    opt["max_step_over_range"] = rph.uniform(0.05, 1.0);
    opt["fixed_step_limiter"] = rph.coin(0.15) ? L * rph.log_uniform(1e-2, 1.0) : 0.0;
    opt["min_eprime_over_e"] = rph.uniform(0.5, 0.95);
    opt["disable_integral_xs"] = rph.coin(0.1) && !real_keep_integral;
    problem["options"] = opt;

    json along;
    along["kind"] = along_kind;
    along["fluct"] = charged_eloss && rph.coin(0.4);
    if (along_kind == "field")
    {
        double b[3];
        rph.isotropic(b);
        double mag = rph.log_uniform(1e-3, 10.0);
        if (rph.coin(0.3))
        {
            b[0] = b[1] = 0;
            b[2] = 1;
        }
        along["field"] = {b[0] * mag, b[1] * mag, b[2] * mag};
        along["looping"] = {{"max_sub", 2 + (int)rph.below(10)},
                            {"max_steps", 5 + (int)rph.below(100)},
                            {"energy", e_hi * rph.log_uniform(1e-3, 1.0)}};
        if (rph.coin(0.5))
        {
            json d;
            double minstep = L * rph.log_uniform(1e-9, 1e-5);
            d["minimum_step"] = minstep;
            d["delta_intersection"] = minstep * rph.log_uniform(2, 30);
            d["delta_chord"] = L * rph.log_uniform(1e-5, 1e-2);
            d["epsilon_step"] = rph.log_uniform(1e-7, 1e-3);
            d["max_nsteps"] = 5 + (int)rph.below(200);
            d["max_substeps"] = 1 + (int)rph.below(20);
            along["driver"] = d;
        }
    }
    problem["along"] = along;

    // ---- config ----
    json cfg;
    {
        double u = rp.uniform();
        unsigned slots = u < 0.15 ? 1 : (u < 0.3 ? 2 : (u < 0.7 ? 3 + rp.below(6) : 9 + rp.below(56)));
        cfg["slots"] = go.force_slots > 0 ? (unsigned)go.force_slots : slots;
    }
    static char const* const orders[] = {"none",
                                         "init_charge",
                                         "reindex_shuffle",
                                         "reindex_status",
                                         "reindex_particle_type",
                                         "reindex_along_step_action",
                                         "reindex_step_limit_action",
                                         "reindex_both_action"};
    cfg["track_order"] = rp.coin(0.3) ? "none" : orders[rp.below(8)];
    cfg["capacity_mode"] = rp.coin(0.4) ? "exact" : "ample";
    cfg["capacity"] = 1 << 16;
    cfg["stack_factor"] = 4.0 + rp.below(3);  // >= kmax + 1: never exhausted
    cfg["action_times"] = rp.coin(0.2);
    cfg["status_checker"] = rp.coin(0.3);
    cfg["rng_seed"] = (unsigned)rp.below(1u << 30);
    cfg["diagnostics"] = rp.coin(0.5);

    // callbacks
    {
        json cbs = json::array();
        int ncb = (int)rp.below(3);
        if (spec.property == "C17")
            ncb = 1 + (int)rp.below(3);
        if (go.no_callbacks)
            ncb = 0;
        // candidate detector volumes: non-exterior volumes with unique names
        std::vector<std::uint32_t> cand;
        std::map<std::string, int> name_count;
        for (auto const& n : gi.vol_names)
            ++name_count[n];
        for (std::uint32_t v = 0; v < gi.vol_names.size(); ++v)
            if (vol_mat[v].get<int>() >= 0 && name_count[gi.vol_names[v]] == 1)
                cand.push_back(v);
        rp.shuffle(cand);
        int mode = (int)rp.below(3);  // 0 none, 1 some, 2 all volumes
        if (cand.empty())
            mode = 0;
        std::size_t ndet = mode == 0 ? 0 : (mode == 2 ? cand.size() : 1 + rp.below(cand.size()));
        ndet = std::min<std::size_t>(ndet, 64);
        bool use_calo = mode != 0 && rp.coin(0.4) && ndet >= 1;
        std::size_t pos = 0;
        if (use_calo)
        {
            std::size_t ncal = 1 + rp.below(ndet);
            json cv = json::array();
            for (; pos < ncal; ++pos)
                cv.push_back(cand[pos]);
            cfg["calo"] = cv;
        }
        // SimpleCalo indexes its tallies by the shared detector id, so it is
        // never combined with other detector callbacks in random plans (the
        // combination is exercised by a directed plan; see DESIGN findings)
        if (use_calo)
            ncb = 0;
        for (int i = 0; i < ncb; ++i)
        {
            json cb;
            cb["selection"] = selection_json(rp, rp.coin(0.4));
            if (mode != 0)
            {
                // disjoint share of the remaining detector volumes
                std::size_t remaining = ndet > pos ? ndet - pos : 0;
                std::size_t take = (i + 1 == ncb) ? remaining
                                                  : (remaining ? 1 + rp.below(remaining) : 0);
                if (take == 0)
                    continue;  // a detector callback needs at least one volume
                json dv = json::array();
                for (std::size_t k = 0; k < take; ++k)
                    dv.push_back(cand[pos++]);
                cb["detectors"] = dv;
                cb["nonzero_edep"] = rp.coin(0.5);
            }
            cbs.push_back(cb);
        }
        cfg["callbacks"] = cbs;
    }
    // "Tie" mode: a fixed step limiter commensurate with the geometry, weak
    // physics and (see gen_primary) axis-parallel charged primaries starting
    // on lattice points, so that a physics step limit can coincide exactly
    // with the distance to a boundary.
    if (charged_eloss && rp.coin(0.12))
    {
        ctx.tie_mode = true;
        static double const lims[] = {0.25, 0.5, 1.0, 2.0, 4.0};
        double lim = lims[rp.below(5)];
        while (L / lim > 256)
            lim *= 2;  // keep the number of steps per track bounded
        problem["options"]["fixed_step_limiter"] = lim;
        for (auto& pr : problem["procs"])
        {
            if (pr["particle"] == "gamma" || !pr.contains("xs"))
                continue;
            for (auto& row : pr["xs"])
                for (auto& x : row)
                    x = x.get<double>() * 0.02;
            if (!pr["eloss"].is_null())
                for (auto& row : pr["eloss"])
                    for (auto& x : row)
                        x = x.get<double>() * 1e-3;
        }
        problem["along"]["fluct"] = false;
    }
    ctx.problem = problem;
    ctx.config = cfg;
    ctx.gi = &gi;
    ctx.L = L;
    ctx.e_hi = e_hi;
    ctx.particles = particles;
    ctx.vol_mat = vol_mat;
    return ctx;
}


//---------------------------------------------------------------------------//
json gen_primary(GenCtx const& ctx, Rng& rw, unsigned event)
{
    GeoInfo const& gi = *ctx.gi;
    json p;
    p["event"] = event;
    p["particle"] = (unsigned)rw.below(ctx.particles.size());
    p["energy"] = ctx.e_hi * rw.log_uniform(1e-3, 1.0);
    double pos[3];
    bool ok = false;
    for (int tries = 0; tries < 200 && !ok; ++tries)
    {
        for (int k = 0; k < 3; ++k)
            pos[k] = rw.uniform(gi.lo[k], gi.hi[k]);
        std::uint32_t v = gi.probe->locate(pos);
        ok = v != kNone && ctx.vol_mat[v].get<int>() >= 0
             && gi.probe->safety(pos) > 1e-4 * ctx.L;
    }
    double d[3];
    rw.isotropic(d);
    if (ctx.tie_mode && rw.coin(0.8))
    {
        // charged particle on a (half-)integer lattice point, axis-parallel
        for (unsigned i = 0; i < ctx.particles.size(); ++i)
            if (ctx.particles[i] != "gamma" && rw.coin(0.6))
                p["particle"] = i;
        p["energy"] = ctx.e_hi;
        bool ok2 = false;
        double q[3];
        int a = (int)rw.below(3);  // travel axis
        for (int tries = 0; tries < 200 && !ok2; ++tries)
        {
            for (int k = 0; k < 3; ++k)
            {
                double span = std::min(gi.hi[k] - gi.lo[k], 40.0);
                double c0 = std::fabs(gi.lo[k] + gi.hi[k]) < 1e-9 ? 0.0 : std::round(0.5 * (gi.lo[k] + gi.hi[k]));
                if (k == a)
                {
                    // on the lattice along the direction of travel: distances to
                    // planes normal to it are then commensurate with the limiter
                    q[k] = c0 + std::round(rw.uniform(-0.5 * span, 0.5 * span) * 2) / 2;
                }
                else
                {
                    // generic in the transverse directions, so that the line
                    // of flight does not lie inside a surface
                    q[k] = c0 + rw.uniform(-0.5 * span, 0.5 * span);
                }
            }
            std::uint32_t v = gi.probe->locate(q);
            ok2 = v != kNone && ctx.vol_mat[v].get<int>() >= 0;
            for (int k = 0; k < 3 && ok2; ++k)
                for (double e : {-1e-3, 1e-3})
                {
                    double qq[3] = {q[0], q[1], q[2]};
                    qq[k] += e;
                    if (gi.probe->locate(qq) != v)
                        ok2 = false;
                }
        }
        if (ok2)
        {
            ok = true;
            for (int k = 0; k < 3; ++k)
                pos[k] = q[k];
            d[0] = d[1] = d[2] = 0;
            d[a] = rw.coin(0.5) ? 1 : -1;
        }
    }
    p["ok"] = ok;
    p["pos"] = {pos[0], pos[1], pos[2]};
    p["dir"] = {d[0], d[1], d[2]};
    p["time"] = rw.coin(0.5) ? 0.0 : rw.uniform(0, 1e-9);
    return p;
}

json gen_event_op(GenCtx const& ctx,
                  Rng& rw,
                  int maxprim,
                  bool merged,
                  bool allow_midflight,
                  unsigned* max_event)
{
    json op;
    op["op"] = "event";
    unsigned ev = merged ? 0 : (unsigned)rw.below(4);
    op["reseed"] = (std::uint64_t)rw.below(1000);
    json batches = json::array();
    int nb = (allow_midflight && rw.coin(0.3)) ? 2 + (int)rw.below(2) : 1;
    for (int b = 0; b < nb; ++b)
    {
        json batch;
        batch["at"] = b == 0 ? 0 : (int)(1 + rw.below(6));
        json prims = json::array();
        int np = 1 + (int)rw.below(maxprim);
        for (int i = 0; i < np; ++i)
        {
            unsigned pe = merged ? (unsigned)rw.below(3) : ev;
            json p = gen_primary(ctx, rw, pe);
            if (p["ok"].get<bool>())
            {
                prims.push_back(p);
                if (max_event)
                    *max_event = std::max(*max_event, pe);
            }
        }
        if (prims.empty())
            continue;
        batch["primaries"] = prims;
        batches.push_back(batch);
    }
    op["batches"] = batches;
    if (rw.coin(0.12))
        op["kill_at"] = (int)(1 + rw.below(8));
    return op;
}

std::vector<PrimRec> prims_from_json(json const& arr)
{
    std::vector<PrimRec> out;
    for (auto const& p : arr)
    {
        PrimRec r;
        r.event = p.at("event");
        r.particle = p.at("particle");
        r.energy = p.at("energy");
        r.time = p.value("time", 0.0);
        for (int k = 0; k < 3; ++k)
        {
            r.pos[k] = p.at("pos")[k];
            r.dir[k] = p.at("dir")[k];
        }
        out.push_back(r);
    }
    return out;
}

}  // namespace vsim
