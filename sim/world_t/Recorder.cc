#include "Recorder.hh"

#include "corecel/data/StackAllocator.hh"
#include "celeritas/geo/GeoTrackView.hh"
#include "celeritas/global/CoreParams.hh"
#include "celeritas/global/CoreState.hh"
#include "celeritas/global/CoreTrackView.hh"
#include "celeritas/mat/MaterialTrackView.hh"
#include "celeritas/phys/ParticleTrackView.hh"
#include "celeritas/phys/PhysicsStepView.hh"
#include "celeritas/phys/PhysicsTrackView.hh"
#include "celeritas/track/SimTrackView.hh"
#include "celeritas/user/StepData.hh"

using namespace celeritas;

namespace vsim
{
namespace
{
template<class Id>
std::uint32_t idv(Id id)
{
    return id ? static_cast<std::uint32_t>(id.unchecked_get()) : kNone;
}

Counters read_counters(CoreStateCounters const& c)
{
    Counters r;
    r.initializers = c.num_initializers;
    r.vacancies = c.num_vacancies;
    r.active = c.num_active;
    r.alive = c.num_alive;
    r.secondaries = c.num_secondaries;
    r.generated = c.num_generated;
    return r;
}

void hash_slot(Hasher& h, SlotObs const& s)
{
    h.add(s.status);
    if (!s.active())
        return;
    h.add(s.track);
    h.add(s.parent);
    h.add(s.event);
    h.add(s.num_steps);
    h.add(s.particle);
    h.add(s.volume);
    h.add(s.material);
    h.add(s.post_action);
    h.add(s.along_action);
    h.add(s.outside);
    h.add(s.on_boundary);
    h.add(s.energy);
    h.add(s.time);
    h.add(s.step_length);
    h.add(s.deposit);
    h.add(s.mfp);
    h.add(s.pos);
    h.add(s.dir);
    for (auto const& sec : s.secondaries)
    {
        h.add(sec.particle);
        h.add(sec.energy);
        h.add(sec.dir);
    }
}
}  // namespace

//---------------------------------------------------------------------------//
std::uint64_t History::hash() const
{
    Hasher h;
    h.add(num_slots);
    for (auto const& f : frames)
    {
        h.add(f.step);
        h.add(f.n_primaries);
        for (int p = 0; p < 3; ++p)
        {
            for (auto const& s : f.obs[p])
                hash_slot(h, s);
            h.add(f.counters[p]);
            h.add(f.stack[p]);
        }
        for (auto v : f.end_status)
            h.add(v);
        h.add(f.res_generated);
        h.add(f.res_queued);
        h.add(f.res_active);
        h.add(f.res_alive);
        h.add(f.completed);
    }
    for (auto const& rows : delivered)
    {
        for (auto const& d : rows)
        {
            h.add(d.step);
            h.add(d.slot);
            h.add(d.track);
            h.add(d.event);
            h.add(d.parent);
            h.add(d.detector);
            h.add(d.action);
            h.add(d.particle);
            h.add(d.step_count);
            h.add(d.step_length);
            h.add(d.deposit);
            for (int i = 0; i < 2; ++i)
            {
                h.add(d.pt[i].time);
                h.add(d.pt[i].energy);
                h.add(d.pt[i].pos);
                h.add(d.pt[i].dir);
                h.add(d.pt[i].volume);
            }
        }
    }
    return h.value();
}

//---------------------------------------------------------------------------//
/*!
 * Hash of the per-track step histories of one event, independent of which
 * slot, which global step and which other events shared the state.
 *
 * Records are ordered by (track id, step count) so the hash does not depend
 * on slot layout.
 */
std::uint64_t History::event_hash(std::uint32_t event) const
{
    struct Row
    {
        std::uint32_t track, nsteps;
        SlotObs const* pre;
        SlotObs const* post;
    };
    std::vector<Row> rows;
    for (auto const& f : frames)
    {
        auto const& pre = f.obs[(int)Point::pre];
        auto const& post = f.obs[(int)Point::post];
        for (std::size_t s = 0; s < pre.size() && s < post.size(); ++s)
        {
            if (pre[s].active() && pre[s].event == event)
                rows.push_back({pre[s].track, pre[s].num_steps, &pre[s], &post[s]});
        }
    }
    std::sort(rows.begin(), rows.end(), [](Row const& a, Row const& b) {
        return a.track != b.track ? a.track < b.track : a.nsteps < b.nsteps;
    });
    Hasher h;
    for (auto const& r : rows)
    {
        for (SlotObs const* s : {r.pre, r.post})
        {
            h.add(s->status);
            h.add(s->track);
            h.add(s->parent);
            h.add(s->num_steps);
            h.add(s->particle);
            h.add(s->volume);
            h.add(s->energy);
            h.add(s->time);
            h.add(s->step_length);
            h.add(s->deposit);
            h.add(s->pos);
            h.add(s->dir);
            h.add(s->outside);
            for (auto const& sec : s->secondaries)
            {
                h.add(sec.particle);
                h.add(sec.energy);
                h.add(sec.dir);
            }
        }
    }
    return h.value();
}

//---------------------------------------------------------------------------//
void Recorder::begin_step(std::vector<PrimRec> prims, bool after_reset, bool after_reseed)
{
    hist.frames.emplace_back();
    cur = &hist.frames.back();
    cur->step = step_counter++;
    cur->n_primaries = prims.size();
    cur->primaries = std::move(prims);
    cur->after_reset = after_reset;
    cur->after_reseed = after_reseed;
}

void Recorder::end_step_ok(CoreParams const& params,
                           CoreState<MemSpace::host> const& state,
                           std::uint32_t g,
                           std::uint32_t q,
                           std::uint32_t a,
                           std::uint32_t al)
{
    Frame& f = *cur;
    auto const& sref = state.ref();
    auto n = state.size();
    f.end_status.resize(n);
    f.end_track.resize(n);
    f.end_event.resize(n);
    for (size_type i = 0; i < n; ++i)
    {
        SimTrackView sim(params.host_ref().sim, sref.sim, TrackSlotId{i});
        f.end_status[i] = static_cast<int>(sim.status());
        f.end_track[i] = idv(sim.track_id());
        f.end_event[i] = idv(sim.event_id());
    }
    f.end_counters = read_counters(state.counters());
    f.res_generated = g;
    f.res_queued = q;
    f.res_active = a;
    f.res_alive = al;
    f.completed = true;
    cur = nullptr;
}

void Recorder::end_step_error(std::string what)
{
    if (cur)
    {
        cur->completed = false;
        cur->error = std::move(what);
    }
    cur = nullptr;
}

void Recorder::observe(Point p, CoreParams const& params, CoreState<MemSpace::host>& state)
{
    if (!cur)
        return;  // warm-up or un-recorded step
    Frame& f = *cur;
    auto const& pref = params.host_ref();
    auto& sref = state.ref();
    auto n = state.size();
    auto& out = f.obs[static_cast<int>(p)];
    out.assign(n, SlotObs{});
    for (size_type i = 0; i < n; ++i)
    {
        TrackSlotId tid{i};
        SlotObs& o = out[i];
        SimTrackView sim(pref.sim, sref.sim, tid);
        o.status = static_cast<int>(sim.status());
        if (sim.status() == TrackStatus::inactive)
            continue;
        o.track = idv(sim.track_id());
        o.parent = idv(sim.parent_id());
        o.event = idv(sim.event_id());
        o.num_steps = sim.num_steps();
        o.time = sim.time();
        o.step_length = sim.step_length();
        o.post_action = idv(sim.post_step_action());
        o.along_action = idv(sim.along_step_action());

        ParticleTrackView par(pref.particles, sref.particles, tid);
        o.particle = idv(par.particle_id());
        o.energy = par.energy().value();

        GeoTrackView geo(pref.geometry, sref.geometry, tid);
        auto const& pos = geo.pos();
        auto const& dir = geo.dir();
        for (int k = 0; k < 3; ++k)
        {
            o.pos[k] = pos[k];
            o.dir[k] = dir[k];
        }
        o.outside = geo.is_outside();
        o.on_boundary = geo.is_on_boundary();
        if (!geo.is_outside())
            o.volume = idv(geo.volume_id());
        MaterialTrackView mat(pref.materials, sref.materials, tid);
        o.material = idv(mat.material_id());

        PhysicsStepView pstep(pref.physics, sref.physics, tid);
        if (p != Point::start)
        {
            o.deposit = pstep.energy_deposition().value();
        }
        if (p == Point::post)
        {
            for (auto const& s : pstep.secondaries())
            {
                SecObs so;
                so.particle = idv(s.particle_id);
                so.energy = s.energy.value();
                for (int k = 0; k < 3; ++k)
                    so.dir[k] = s.direction[k];
                o.secondaries.push_back(so);
            }
        }
        if (p != Point::start && par.particle_id() && mat.material_id())
        {
            PhysicsTrackView phys(
                pref.physics, sref.physics, par.particle_id(), mat.material_id(), tid);
            o.mfp = phys.has_interaction_mfp() ? phys.interaction_mfp() : 0.0;
        }
    }
    f.counters[static_cast<int>(p)] = read_counters(state.counters());
    {
        StackAllocator<Secondary> alloc(sref.physics.secondaries);
        f.stack[static_cast<int>(p)].capacity = alloc.capacity();
        // size() asserts <= capacity only in debug; read the raw cell
        f.stack[static_cast<int>(p)].size
            = sref.physics.secondaries.size[ItemId<size_type>{0}];
    }
}

//---------------------------------------------------------------------------//
ObserverAction::ObserverAction(ActionId id, Point p, std::shared_ptr<RecorderHub> hub)
    : ConcreteAction(id,
                     p == Point::start  ? "vsim-observe-start"
                     : p == Point::pre ? "vsim-observe-pre"
                                       : "vsim-observe-post",
                     "simulator observer")
    , point_(p)
    , hub_(std::move(hub))
{
}

StepActionOrder ObserverAction::order() const
{
    switch (point_)
    {
        case Point::start:
            return StepActionOrder::user_start;
        case Point::pre:
            return StepActionOrder::user_pre;
        default:
            return StepActionOrder::user_post;
    }
}

void ObserverAction::step(CoreParams const& params, CoreStateHost& state) const
{
    unsigned sid = state.stream_id().get();
    if (sid < hub_->by_stream.size() && hub_->by_stream[sid])
    {
        hub_->by_stream[sid]->observe(point_, params, state);
    }
    if (hub_->on_point)
    {
        hub_->on_point(sid, point_);
    }
}

//---------------------------------------------------------------------------//
auto RecordingCallback::filters() const -> Filters
{
    Filters f;
    std::uint32_t d = 0;
    for (auto v : spec_.detector_volumes)
    {
        f.detectors[VolumeId{v}] = DetectorId{d++};
    }
    f.nonzero_energy_deposition = spec_.nonzero_edep;
    return f;
}

void RecordingCallback::process_steps(HostStepState st)
{
    unsigned sid = st.stream_id.get();
    if (sid >= hub_->by_stream.size() || !hub_->by_stream[sid])
        return;
    Recorder& rec = *hub_->by_stream[sid];
    if (!rec.cur)
        return;
    if (rec.hist.delivered.size() <= index_)
    {
        rec.hist.delivered.resize(index_ + 1);
        rec.hist.callback_calls.resize(index_ + 1, 0);
    }
    ++rec.hist.callback_calls[index_];
    auto const& d = st.steps.data;
    auto& rows = rec.hist.delivered[index_];
    for (size_type i = 0; i < d.size(); ++i)
    {
        TrackSlotId tid{i};
        if (!d.track_id[tid])
            continue;  // inactive slot
        if (!d.detector.empty() && !d.detector[tid])
            continue;  // filtered out
        Delivered r;
        r.step = rec.cur->step;
        r.slot = i;
        r.track = idv(d.track_id[tid]);
        if (!d.detector.empty())
            r.detector = idv(d.detector[tid]);
        if (!d.event_id.empty())
            r.event = idv(d.event_id[tid]);
        if (!d.parent_id.empty())
            r.parent = idv(d.parent_id[tid]);
        if (!d.action_id.empty())
            r.action = idv(d.action_id[tid]);
        if (!d.particle.empty())
            r.particle = idv(d.particle[tid]);
        if (!d.track_step_count.empty())
            r.step_count = d.track_step_count[tid];
        if (!d.step_length.empty())
            r.step_length = d.step_length[tid];
        if (!d.energy_deposition.empty())
            r.deposit = d.energy_deposition[tid].value();
        for (auto sp : range(StepPoint::size_))
        {
            auto const& pt = d.points[sp];
            auto& o = r.pt[static_cast<int>(sp)];
            if (!pt.time.empty())
                o.time = pt.time[tid];
            if (!pt.energy.empty())
                o.energy = pt.energy[tid].value();
            if (!pt.pos.empty())
                for (int k = 0; k < 3; ++k)
                    o.pos[k] = pt.pos[tid][k];
            if (!pt.dir.empty())
                for (int k = 0; k < 3; ++k)
                    o.dir[k] = pt.dir[tid][k];
            if (!pt.volume_id.empty())
                o.volume = idv(pt.volume_id[tid]);
        }
        rows.push_back(r);
    }
}

}  // namespace vsim
