// Plan generation shared by the transport-world checks: geometry catalogue,
// problem + configuration generator, primary sampler.
#pragma once

#include <memory>
#include <string>
#include <vector>

#include "core/World.hh"
#include "Problem.hh"

namespace vsim
{
struct GeoInfo
{
    std::shared_ptr<celeritas::GeoParams const> geo;
    std::unique_ptr<GeoProbe> probe;
    double lo[3], hi[3];
    double scale;
    std::vector<std::string> vol_names;
};

GeoInfo const& geo_info(std::string const& path);

struct GenCtx
{
    json problem;
    json config;
    GeoInfo const* gi{nullptr};
    double L{1};
    double e_hi{1};
    std::vector<std::string> particles;
    json vol_mat;
    bool tie_mode{false};  //!< commensurate fixed step limiter / lattice primaries
};

struct GenOpts
{
    std::string force_along;  //!< "" = random
    bool no_callbacks{false};
    int force_slots{0};
};

//! Generate problem + config from the root PRNG of a plan
GenCtx gen_problem_config(CheckSpec const& spec, Rng const& root, GenOpts const& go = {});

//! One primary for the given event id (field "ok" false if no point was found)
json gen_primary(GenCtx const& ctx, Rng& rw, unsigned event);

//! An "event" op: 1..maxprim primaries, optionally in several batches
json gen_event_op(GenCtx const& ctx,
                  Rng& rw,
                  int maxprim,
                  bool merged,
                  bool allow_midflight,
                  unsigned* max_event);

std::vector<PrimRec> prims_from_json(json const& arr);
}  // namespace vsim
