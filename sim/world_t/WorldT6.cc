// World T, reproducibility (C06): an event is first run alone on a fresh state
// (reference), then re-run on a state with prior history (other events, an
// aborted event + reset, kill_active, warm-up) and under every re-indexing
// policy / timing / status-checker / jumping clock.  Per-track step histories
// and tallies must be bit-identical.
#include <cmath>
#include <cstring>
#include <map>
#include <set>
#include <sstream>

#include "celeritas/user/ActionDiagnostic.hh"
#include "celeritas/user/SimpleCalo.hh"

#include "core/SimClock.hh"
#include "core/World.hh"
#include "Oracles.hh"
#include "PlanGen.hh"
#include "Session.hh"

using namespace celeritas;

namespace vsim
{
namespace
{
struct Row
{
    std::uint32_t track, nsteps;
    SlotObs const* pre;
    SlotObs const* post;
};

//! Slot/step independent digest of one event's per-track step history.
//! Action ids are mapped to labels (ids shift when extra actions exist).
struct Digest
{
    std::uint64_t hash{0};
    std::size_t rows{0};
    std::vector<std::string> lines;  //!< textual rows for first-difference report
};

Digest event_digest(History const& h, Problem const& prob, std::uint32_t event, std::size_t first_frame)
{
    std::vector<Row> rows;
    for (std::size_t fi = first_frame; fi < h.frames.size(); ++fi)
    {
        auto const& f = h.frames[fi];
        auto const& pre = f.obs[(int)Point::pre];
        auto const& post = f.obs[(int)Point::post];
        for (std::size_t s = 0; s < pre.size() && s < post.size(); ++s)
            if (pre[s].active() && pre[s].event == event)
                rows.push_back({pre[s].track, pre[s].num_steps, &pre[s], &post[s]});
    }
    std::sort(rows.begin(), rows.end(), [](Row const& a, Row const& b) {
        return a.track != b.track ? a.track < b.track : a.nsteps < b.nsteps;
    });
    Digest d;
    Hasher hh;
    for (auto const& r : rows)
    {
        std::ostringstream os;
        os.precision(17);
        os << "track " << r.track << " step " << r.nsteps << ":";
        for (SlotObs const* s : {r.pre, r.post})
        {
            std::string act = s->post_action < prob.action_labels.size()
                                  ? prob.action_labels[s->post_action]
                                  : "-";
            hh.add(s->status);
            hh.add(s->track);
            hh.add(s->parent);
            hh.add(s->num_steps);
            hh.add(s->particle);
            hh.add(s->volume);
            hh.add(s->energy);
            hh.add(s->time);
            hh.add(s->step_length);
            hh.add(s->deposit);
            hh.add(s->pos);
            hh.add(s->dir);
            hh.add(s->outside);
            hh.add_str(act);
            os << " [st " << s->status << " par " << (int)s->parent << " p " << (int)s->particle
               << " vol " << (int)s->volume << " E " << s->energy << " t " << s->time << " len "
               << s->step_length << " dep " << s->deposit << " pos " << s->pos[0] << ","
               << s->pos[1] << "," << s->pos[2] << " dir " << s->dir[0] << "," << s->dir[1] << ","
               << s->dir[2] << " act " << act << " nsec " << s->secondaries.size() << "]";
            for (auto const& sec : s->secondaries)
            {
                hh.add(sec.particle);
                hh.add(sec.energy);
                hh.add(sec.dir);
            }
        }
        d.lines.push_back(os.str());
    }
    d.hash = hh.value();
    d.rows = rows.size();
    return d;
}

struct Tallies
{
    std::vector<double> calo;
    std::map<std::string, std::uint64_t> actions;
};

Tallies read_tallies(Problem const& prob)
{
    Tallies t;
    if (prob.calo)
        t.calo = prob.calo->calc_total_energy_deposition();
    if (prob.action_diag)
    {
        auto m = prob.action_diag->calc_actions_map();
        for (auto const& kv : m)
            t.actions[kv.first] = kv.second;
    }
    return t;
}

void clear_tallies(Problem& prob)
{
    if (prob.calo)
        prob.calo->clear();
    if (prob.action_diag)
        prob.action_diag->clear();
}

std::set<std::uint32_t> target_events(json const& op)
{
    std::set<std::uint32_t> ev;
    for (auto const& b : op.at("batches"))
        for (auto const& p : b.at("primaries"))
            ev.insert(p.at("event").get<std::uint32_t>());
    return ev;
}

class WorldT6 : public World
{
  public:
    std::string name() const override { return "T6 (transport, reproducibility)"; }

    json make_plan(CheckSpec const& spec, std::uint64_t index) const override
    {
        Rng root(mix64(spec.seed) ^ mix64(index * 0x9e3779b97f4a7c15ull + 606));
        Rng rp = root.sub("plan6");
        Rng rw = root.sub("workload");
        Rng rf = root.sub("fault");
        bool thorough = spec.tier == "thorough";
        json plan;
        plan["world"] = "T6";
        plan["property"] = spec.property;
        plan["seed"] = spec.seed;
        plan["index"] = index;
        GenOpts go;
        go.no_callbacks = true;
        GenCtx ctx = gen_problem_config(spec, root, go);
        plan["problem"] = ctx.problem;
        json cfg = ctx.config;
        cfg["track_order"] = "none";
        cfg["capacity_mode"] = "ample";
        cfg["action_times"] = false;
        cfg["status_checker"] = false;
        cfg["diagnostics"] = true;
        cfg["callbacks"] = json::array();
        cfg["max_events"] = 8;
        plan["config"] = cfg;

        int maxprim = thorough ? 16 : 6;
        unsigned me = 0;
        json target;
        for (int tries = 0; tries < 5; ++tries)
        {
            target = gen_event_op(ctx, rw, maxprim, rw.coin(0.2), true, &me);
            if (!target["batches"].empty())
                break;
        }
        target["reseed"] = (std::uint64_t)rw.below(100000);
        plan["target"] = target;

        // variant configuration
        static char const* const orders[] = {"none",
                                             "reindex_shuffle",
                                             "reindex_status",
                                             "reindex_particle_type",
                                             "reindex_along_step_action",
                                             "reindex_step_limit_action",
                                             "reindex_both_action"};
        json var;
        var["track_order"] = orders[rp.below(7)];
        var["action_times"] = rp.coin(0.4);
        var["status_checker"] = rp.coin(0.4);
        var["permute"] = var["track_order"] == "reindex_shuffle" && rp.coin(0.7);
        var["permute_seed"] = (std::uint64_t)rp.next();
        if (var["action_times"].get<bool>() && rp.coin(0.7))
        {
            var["clock"] = {{"offset_ns", (long long)(rp.uniform(-1, 1) * 7.2e12)},
                            {"jump_ns", (long long)(rp.coin(0.5) ? rp.log_uniform(1e3, 3.6e12) : 0)},
                            {"seed", (std::uint64_t)rp.next()}};
        }
        plan["variant"] = var;

        // prior history
        json hist = json::array();
        int nh = (int)rf.below(4);
        if (rf.coin(0.2))
            hist.push_back({{"op", "warm_up"}});
        for (int i = 0; i < nh; ++i)
        {
            json op = gen_event_op(ctx, rw, maxprim, rw.coin(0.2), true, &me);
            if (op["batches"].empty())
                continue;
            double u = rf.uniform();
            if (u < 0.35)
            {
                op["op"] = "abort_event";
                op["abort"] = {{"step", (int)rf.below(8)}, {"point", (int)rf.below(3)}};
            }
            else if (u < 0.5)
            {
                op["op"] = "kill_event";
                op["kill_at"] = (int)(1 + rf.below(6));
            }
            if (rf.coin(0.3))
                op.erase("reseed");
            hist.push_back(op);
        }
        plan["history"] = hist;
        plan["step_budget"] = 60000;
        return plan;
    }

    RunResult execute(json const& plan) const override
    {
        RunResult rr;
        try
        {
            long budget = plan.value("step_budget", 200000);
            json const& target = plan.at("target");
            auto events = target_events(target);

            // ---- reference: fresh state, base configuration ----
            std::map<std::uint32_t, Digest> ref;
            Tallies ref_t;
            long ref_steps = 0;
            {
                Problem p0 = build_problem(plan.at("problem"), plan.at("config"));
                Session s0(p0, 0, false);
                EventOutcome eo = s0.run_event(target, budget);
                if (!eo.completed && eo.budget_exhausted && !eo.threw)
                {
                    // cost cap reached while the event was still progressing:
                    // nothing to judge (see Oracles.cc on liveness)
                    rr.count("skipped_step_budget_exhausted");
                    return rr;
                }
                if (!eo.completed)
                {
                    rr.violate("C06",
                               "reference-run-failed",
                               "reference-run-failed",
                               "reference run of the target event did not complete: " + eo.error);
                    return rr;
                }
                for (auto e : events)
                    ref[e] = event_digest(s0.history(), p0, e, 0);
                ref_t = read_tallies(p0);
                ref_steps = eo.steps;
                OracleOpts oo;
                oo.c17 = false;
                check_history(s0.history(), p0, oo, rr);  // other properties, side info
                history_shape(s0.history(), rr);
            }

            // ---- variant: history first, then the same event ----
            json vcfg = plan.at("config");
            json const& var = plan.at("variant");
            vcfg["track_order"] = var.at("track_order");
            vcfg["action_times"] = var.value("action_times", false);
            vcfg["status_checker"] = var.value("status_checker", false);
            Problem p1 = build_problem(plan.at("problem"), vcfg);
            if (var.contains("clock"))
            {
                sim_clock_configure(var["clock"].value("offset_ns", 0ll),
                                    var["clock"].value("jump_ns", 0ll),
                                    var["clock"].value("seed", 1ull));
                rr.fault("clock_jump");
            }
            struct ClockReset
            {
                ~ClockReset() { sim_clock_configure(0, 0, 0); }
            } clock_reset;

            Session s1(p1, 0, vcfg.value("action_times", false));
            if (var.value("permute", false))
            {
                Rng pr(var.value("permute_seed", 1ull));
                auto* rrp = &rr;
                s1.before_step = [pr, rrp](Session& s) mutable {
                    auto sp = s.stepper().sp_state();
                    auto& st = dynamic_cast<CoreState<MemSpace::host>&>(*sp);
                    auto& ts = st.ref().track_slots;
                    std::vector<TrackSlotId::size_type> perm(ts.size());
                    for (std::size_t i = 0; i < perm.size(); ++i)
                        perm[i] = i;
                    pr.shuffle(perm);
                    for (std::size_t i = 0; i < perm.size(); ++i)
                        ts[ThreadId(i)] = perm[i];
                    rrp->fault("slot_permutation");
                };
            }
            for (auto const& op : plan.at("history"))
            {
                std::string kind = op.at("op");
                if (kind == "warm_up")
                {
                    s1.warm_up();
                    rr.fault("warm_up");
                }
                else if (kind == "event")
                {
                    EventOutcome eo = s1.run_event(op, budget);
                    rr.fault("prior_event");
                    if (!eo.completed && eo.budget_exhausted && !eo.threw)
                    {
                        rr.count("skipped_step_budget_exhausted");
                        return rr;
                    }
                    if (!eo.completed)
                    {
                        // history event failed without an injected fault
                        rr.violate("C06",
                                   "history-event-failed",
                                   "history-event-failed",
                                   "a prior (un-faulted) event did not complete: " + eo.error);
                        return rr;
                    }
                }
                else if (kind == "abort_event")
                {
                    long base = s1.total_steps();
                    s1.fault().abort_step = base + op["abort"].value("step", 0);
                    s1.fault().abort_point = op["abort"].value("point", 0);
                    EventOutcome eo = s1.run_event(op, budget);
                    s1.fault().abort_step = -1;
                    if (eo.threw_injected)
                    {
                        rr.fault("abort");
                        rr.probe(std::string("abort_at_point_")
                                 + std::to_string(op["abort"].value("point", 0)));
                        s1.reset();
                        rr.fault("reset_reuse");
                    }
                    else if (eo.threw)
                    {
                        rr.violate("C06",
                                   "history-event-failed",
                                   "history-event-failed",
                                   "a prior event threw something other than the injected "
                                   "abort: "
                                       + eo.error);
                        return rr;
                    }
                    // else: event finished before the abort step (no fault fired)
                }
                else if (kind == "kill_event")
                {
                    json head = op;
                    long kill_at = op.value("kill_at", 1);
                    EventOutcome eo = s1.run_event(head, kill_at);
                    if (eo.budget_exhausted)
                    {
                        s1.kill_active();
                        rr.fault("kill_active");
                        // finish: remaining batches are dropped; drain
                        EventOutcome dr = s1.drain(budget);
                        if (!dr.completed)
                        {
                            // queued tracks remain alive after kill_active: keep
                            // killing until drained (bounded)
                            for (int k = 0; k < 1000 && !dr.completed; ++k)
                            {
                                s1.kill_active();
                                dr = s1.drain(budget);
                            }
                        }
                        if (!dr.completed)
                        {
                            s1.reset();
                            rr.fault("reset_reuse");
                        }
                    }
                }
            }
            clear_tallies(p1);
            std::size_t first = s1.history().frames.size();
            EventOutcome eo = s1.run_event(target, budget);
            if (!eo.completed && eo.budget_exhausted && !eo.threw)
            {
                rr.count("skipped_step_budget_exhausted");
                return rr;
            }
            if (!eo.completed)
            {
                rr.violate("C06",
                           "target-run-failed",
                           "target-run-failed:" + std::string(var.at("track_order")),
                           "the target event did not complete on the state with history: "
                               + eo.error);
            }
            else
            {
                std::string vdesc = "order=" + var.at("track_order").get<std::string>()
                                    + (var.value("permute", false) ? "+permute" : "")
                                    + (var.value("action_times", false) ? " timing" : "")
                                    + (var.value("status_checker", false) ? " checker" : "")
                                    + " history=" + std::to_string(plan["history"].size());
                for (auto e : events)
                {
                    Digest d = event_digest(s1.history(), p1, e, first);
                    rr.count("c06_rows_compared", d.rows);
                    if (d.hash != ref[e].hash)
                    {
                        std::string first_diff = "row count " + std::to_string(d.rows) + " vs "
                                                 + std::to_string(ref[e].rows);
                        for (std::size_t i = 0; i < std::min(d.lines.size(), ref[e].lines.size());
                             ++i)
                        {
                            if (d.lines[i] != ref[e].lines[i])
                            {
                                first_diff = "first difference:\n   fresh : " + ref[e].lines[i]
                                             + "\n   rerun : " + d.lines[i];
                                break;
                            }
                        }
                        rr.violate("C06",
                                   "history-differs",
                                   "history-differs",
                                   "event " + std::to_string(e)
                                       + " gave a different per-track history on a state with "
                                         "prior history ("
                                       + vdesc + "); " + first_diff);
                    }
                }
                Tallies t = read_tallies(p1);
                if (t.calo.size() == ref_t.calo.size())
                {
                    for (std::size_t i = 0; i < t.calo.size(); ++i)
                        if (std::memcmp(&t.calo[i], &ref_t.calo[i], sizeof(double)) != 0)
                            rr.violate("C06",
                                       "tally-differs",
                                       "tally-differs:calo",
                                       "calorimeter tally differs from the fresh-state run ("
                                           + vdesc + ")");
                }
                if (t.actions != ref_t.actions)
                    rr.violate("C06",
                               "tally-differs",
                               "tally-differs:actions",
                               "action diagnostic differs from the fresh-state run (" + vdesc
                                   + ")");
                if (eo.steps != ref_steps)
                    rr.violate("C06",
                               "history-differs",
                               "history-differs",
                               "number of steps differs: " + std::to_string(eo.steps) + " vs "
                                   + std::to_string(ref_steps) + " (" + vdesc + ")");
            }
            // Hash of everything for the determinism gate
            Hasher hh;
            hh.add(s1.history().hash());
            for (auto const& kv : ref)
                hh.add(kv.second.hash);
            rr.hash = hh.value();
            // shape: reference shape combined with variant description
            Hasher sh;
            sh.add(rr.shape);
            sh.add_str(var.at("track_order").get<std::string>());
            sh.add((int)plan["history"].size());
            rr.shape = sh.value();
            rr.count("order:" + var.at("track_order").get<std::string>());
            json s;
            s["geometry"] = plan["problem"]["geometry"]["file"];
            s["slots"] = plan["config"]["slots"];
            s["variant"] = var;
            json hk = json::array();
            for (auto const& op : plan["history"])
                hk.push_back(op.at("op"));
            s["history"] = hk;
            s["target_steps"] = ref_steps;
            rr.sample = s;
        }
        catch (std::exception const& e)
        {
            rr.violate("C06",
                       "setup-exception",
                       "setup-exception",
                       std::string("problem construction or stepping threw: ") + e.what());
        }
        sim_clock_configure(0, 0, 0);
        return rr;
    }

    std::vector<json> shrink(json const& plan) const override
    {
        std::vector<json> out;
        auto const& hist = plan.at("history");
        for (std::size_t i = 0; i < hist.size(); ++i)
        {
            json p = plan;
            p["history"].erase(i);
            out.push_back(p);
        }
        for (std::size_t i = 0; i < hist.size(); ++i)
        {
            if (hist[i].at("op") != "event" && hist[i].at("op") != "warm_up")
            {
                json p = plan;
                p["history"][i]["op"] = "event";
                out.push_back(p);
            }
        }
        auto set_var = [&](char const* key, json val) {
            if (plan["variant"].contains(key) && plan["variant"][key] != val)
            {
                json p = plan;
                p["variant"][key] = val;
                if (std::string(key) == "track_order")
                    p["variant"]["permute"] = false;
                out.push_back(p);
            }
        };
        set_var("track_order", "none");
        set_var("action_times", false);
        set_var("status_checker", false);
        set_var("permute", false);
        if (plan["variant"].contains("clock"))
        {
            json p = plan;
            p["variant"].erase("clock");
            out.push_back(p);
        }
        // fewer primaries in target
        auto const& bs = plan["target"]["batches"];
        for (std::size_t b = 0; b < bs.size(); ++b)
        {
            auto const& pr = bs[b]["primaries"];
            if (bs.size() > 1)
            {
                json p = plan;
                p["target"]["batches"].erase(b);
                out.push_back(p);
            }
            if (pr.size() > 1)
            {
                for (std::size_t k = 0; k < pr.size(); ++k)
                {
                    json p = plan;
                    p["target"]["batches"][b]["primaries"].erase(k);
                    out.push_back(p);
                }
            }
        }
        unsigned slots = plan["config"]["slots"];
        for (unsigned s : {1u, 2u, slots / 2})
            if (s >= 1 && s < slots)
            {
                json p = plan;
                p["config"]["slots"] = s;
                out.push_back(p);
            }
        return out;
    }

    json describe(CheckSpec const&) const override
    {
        json d;
        d["level"] = "exploration";
        d["rule"]
            = "Each evaluation: a generated problem and a target event (primaries, event id, "
              "reseed id). Reference = the event alone on a fresh state (track order none). "
              "Variant = same slot count, a seeded prior history (0-3 other events, some aborted "
              "by a throwing user action at a seeded (step, user_start|user_pre|user_post) and "
              "followed by reset_state(), some cut short by kill_active(), optional warm-up) and a "
              "seeded configuration (6 re-indexing policies, reindex_shuffle with a fresh "
              "simulator-chosen permutation before every step, action timing with a jumping "
              "simulated clock, status checker), then reseed + the same event. Oracle: bitwise "
              "equal per-track step histories (ordered by track id / step count, action ids "
              "compared by label) and equal calorimeter / action tallies. Non-trivial as in world "
              "T; distinct = (reference history shape, track order, history length).";
        d["components"] = {
            {"real",
             {"Stepper::reseed/reset_state/kill_active/warm_up", "CoreState::reset", "reseed_rng",
              "TrackInitParams::reset_track_ids", "SortTracksAction + sort_tracks",
              "ActionSequence timing path (Stopwatch)", "StatusChecker", "track initialization",
              "all of world T"}},
            {"stub", {"StubProcess/StubModel", "clock_gettime (simulated offset/jumps)"}}};
        d["assumptions"] = {"init_charge is a layout policy (different slots => different random "
                            "streams) and is outside the statement; it is not compared",
                            "comparisons across slot orders use an ample secondary stack"};
        return d;
    }

    std::uint64_t default_runs(CheckSpec const& spec) const override
    {
        return spec.tier == "thorough" ? 40000 : 800;
    }
};

std::unique_ptr<World> make_world_t6()
{
    return std::make_unique<WorldT6>();
}
RegisterWorld reg_t6({"C06"}, &make_world_t6);
}  // namespace
}  // namespace vsim
