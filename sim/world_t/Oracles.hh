// Oracles over a recorded world-T history.  Each oracle states only what its
// property states; see DESIGN.md section 5.
#pragma once

#include <string>
#include <vector>

#include "core/World.hh"
#include "Problem.hh"
#include "Recorder.hh"

namespace vsim
{
struct OracleOpts
{
    bool c01{true}, c02{true}, c05{true}, c17{true};
    bool expect_complete{true};  //!< the plan ran every event to completion
    bool faults_injected{false};  //!< stack exhaustion was injected
    long step_budget{0};
    bool budget_exhausted{false};
    GeoProbe const* probe{nullptr};
    double geo_tol{1e-5};
    //! Extra allowance on |displacement| <= step for field propagation: the
    //! propagator moves to the chord/boundary intercept, which may lie up to
    //! delta_intersection beyond the (conservatively reduced) reported length
    double field_disp_tol{0};
    //! Relative integration error of the field driver (epsilon_step): the end
    //! point may be off the true helix by this fraction of the path
    double field_rel_tol{0};
    //! Uniform field [T] and the driver's delta_chord: used to recognise the
    //! recorded C08 regime (substeps of more than 1 rad pass the chord test)
    double field_tesla[3]{0, 0, 0};
    double field_delta_chord{0};
    int field_max_nsteps{100};
    double field_minimum_step{1e-5};
};

void check_history(History const& h,
                   Problem const& prob,
                   OracleOpts const& opts,
                   RunResult& out);

//! Whether the last `window` steps of a history changed anything (tracks,
//! positions, energies, times, queue length): liveness judged as progress
bool history_made_progress(History const& h, std::size_t window = 2000);

//! Shape hash (sequence of per-step population changes) and triviality
void history_shape(History const& h, RunResult& out);
}  // namespace vsim

namespace vsim
{
//! C17 tallies: SimpleCalo / ActionDiagnostic / StepDiagnostic vs history
void check_tallies(History const& h, Problem const& prob, RunResult& out);
//! Same for several streams sharing one Problem (histories in stream order)
void check_tallies(std::vector<History const*> const& hs, Problem const& prob, RunResult& out,
                   std::string const& property);
}
