// World T, storage exhaustion (C16): fault enumeration.
//  (a) secondary stack: for every step of an event that allocates secondaries
//      and every number of free cells 0..need, the event is re-run with the
//      stack pre-filled at user_pre of that step; plus whole-event runs with a
//      tiny stack.  Failed interactions must leave the track alive with
//      nothing emitted, the event must finish, energy must balance exactly.
//  (b) initializer capacity 1..peak-1: stepping must end in a
//      celeritas::RuntimeError (no crash, no sanitizer report) and after
//      reset_state() + reseed a later event must equal its fresh-state run.
#include <cmath>
#include <cstring>
#include <map>
#include <set>
#include <sstream>

#include "core/World.hh"
#include "Oracles.hh"
#include "PlanGen.hh"
#include "Session.hh"

using namespace celeritas;

namespace vsim
{
namespace
{
std::uint64_t tracks_digest(History const& h, std::size_t first_frame)
{
    struct Row
    {
        std::uint32_t event, track, nsteps;
        SlotObs const* pre;
        SlotObs const* post;
    };
    std::vector<Row> rows;
    for (std::size_t fi = first_frame; fi < h.frames.size(); ++fi)
    {
        auto const& f = h.frames[fi];
        auto const& pre = f.obs[(int)Point::pre];
        auto const& post = f.obs[(int)Point::post];
        for (std::size_t s = 0; s < pre.size() && s < post.size(); ++s)
            if (pre[s].active())
                rows.push_back({pre[s].event, pre[s].track, pre[s].num_steps, &pre[s], &post[s]});
    }
    std::sort(rows.begin(), rows.end(), [](Row const& a, Row const& b) {
        if (a.event != b.event)
            return a.event < b.event;
        return a.track != b.track ? a.track < b.track : a.nsteps < b.nsteps;
    });
    Hasher hh;
    for (auto const& r : rows)
        for (SlotObs const* s : {r.pre, r.post})
        {
            hh.add(s->status);
            hh.add(s->track);
            hh.add(s->parent);
            hh.add(s->num_steps);
            hh.add(s->particle);
            hh.add(s->volume);
            hh.add(s->energy);
            hh.add(s->time);
            hh.add(s->step_length);
            hh.add(s->deposit);
            hh.add(s->pos);
            hh.add(s->dir);
            for (auto const& sec : s->secondaries)
            {
                hh.add(sec.particle);
                hh.add(sec.energy);
            }
        }
    return hh.value();
}

class WorldT16 : public World
{
  public:
    std::string name() const override { return "T16 (transport, storage exhaustion)"; }

    json make_plan(CheckSpec const& spec, std::uint64_t index) const override
    {
        Rng root(mix64(spec.seed) ^ mix64(index * 0x9e3779b97f4a7c15ull + 1616));
        Rng rw = root.sub("workload");
        Rng rf = root.sub("fault");
        bool thorough = spec.tier == "thorough";
        json plan;
        plan["world"] = "T16";
        plan["property"] = spec.property;
        plan["seed"] = spec.seed;
        plan["index"] = index;
        GenOpts go;
        go.no_callbacks = true;
        GenCtx ctx = gen_problem_config(spec, root, go);
        // make secondaries likely
        for (auto& pr : ctx.problem["procs"])
        {
            if (pr.contains("real"))
                continue;  // real models (KN, Moller-Bhabha, annihilation) emit by themselves
            if (pr["inter"]["kmax"].get<int>() == 0 && rf.coin(0.8))
                pr["inter"]["kmax"] = 1 + (int)rf.below(3);
            pr["inter"]["p_absorb"] = rf.uniform(0.1, 0.4);
            pr["inter"]["p_soft"] = rf.uniform(0, 0.3);
            pr["inter"]["e_floor"] = ctx.e_hi * rf.log_uniform(1e-3, 1e-2);
        }
        plan["problem"] = ctx.problem;
        json cfg = ctx.config;
        cfg["capacity_mode"] = "ample";
        cfg["capacity"] = 1 << 16;
        cfg["callbacks"] = json::array();
        cfg.erase("calo");
        cfg["diagnostics"] = false;
        cfg["max_events"] = 8;
        if (cfg["track_order"] == "init_charge" && rf.coin(0.5))
            cfg["track_order"] = "none";
        plan["config"] = cfg;
        unsigned me = 0;
        int maxprim = thorough ? 12 : 5;
        json target, later;
        for (int tries = 0; tries < 5; ++tries)
        {
            target = gen_event_op(ctx, rw, maxprim, false, false, &me);
            if (!target["batches"].empty())
                break;
        }
        for (int tries = 0; tries < 5; ++tries)
        {
            later = gen_event_op(ctx, rw, maxprim, false, false, &me);
            if (!later["batches"].empty())
                break;
        }
        // energetic primaries so that cascades (and allocations) happen
        for (json* op : {&target, &later})
            for (auto& b : (*op)["batches"])
                for (auto& p : b["primaries"])
                    p["energy"] = ctx.e_hi * rf.log_uniform(0.05, 1.0);
        plan["target"] = target;
        plan["later"] = later;
        plan["max_stack_steps"] = thorough ? 200 : 10;
        plan["max_caps"] = thorough ? 64 : 6;
        plan["fault_seed"] = (std::uint64_t)rf.next();
        plan["step_budget"] = 60000;
        return plan;
    }

    RunResult execute(json const& plan) const override
    {
        RunResult rr;
        rr.weight = 0;
        try
        {
            long budget = plan.value("step_budget", 200000);
            json const& target = plan.at("target");
            json const& later = plan.at("later");
            json cfg = plan.at("config");
            Rng rf(plan.value("fault_seed", 1ull));
            bool only = plan.contains("only");

            // ---------- baseline ----------
            Problem prob = build_problem(plan.at("problem"), cfg);
            std::uint32_t failure_action = kNone;
            {
                auto it = prob.action_ids.find("physics-failure");
                if (it != prob.action_ids.end())
                    failure_action = it->second;
            }
            std::vector<std::pair<long, std::uint32_t>> alloc_steps;  // (step, cells)
            std::uint32_t peak = 0;
            std::uint64_t later_ref = 0;
            std::uint32_t later_peak = 0;
            std::uint32_t stack_capacity = 0;
            {
                Session s0(prob, 0, false);
                EventOutcome eo = s0.run_event(target, budget);
                ++rr.weight;
                if (!eo.completed && eo.budget_exhausted && !eo.threw)
                {
                    // cost cap reached while the event was still progressing:
                    // nothing to judge (see Oracles.cc on liveness)
                    rr.count("skipped_step_budget_exhausted");
                    return rr;
                }
                if (!eo.completed)
                {
                    rr.violate("C16",
                               "baseline-failed",
                               "baseline-failed",
                               "fault-free run of the event did not complete: " + eo.error);
                    return rr;
                }
                for (auto const& f : s0.history().frames)
                {
                    std::uint32_t cells = f.stack[(int)Point::post].size;
                    stack_capacity = f.stack[(int)Point::post].capacity;
                    if (cells > 0)
                        alloc_steps.push_back({(long)f.step, cells});
                }
                peak = s0.peak_initializers();
                OracleOpts oo;
                oo.c02 = oo.c05 = oo.c17 = false;
                check_history(s0.history(), prob, oo, rr);
                history_shape(s0.history(), rr);
                rr.hash = s0.history().hash();
            }
            {
                // fresh-state reference of the later event
                Session s0(prob, 0, false);
                EventOutcome eo = s0.run_event(later, budget);
                if (!eo.completed && eo.budget_exhausted && !eo.threw)
                {
                    rr.count("skipped_step_budget_exhausted");
                    return rr;
                }
                if (!eo.completed)
                {
                    rr.violate("C16",
                               "baseline-failed",
                               "baseline-failed",
                               "fault-free run of the later event did not complete: " + eo.error);
                    return rr;
                }
                later_ref = tracks_digest(s0.history(), 0);
                later_peak = s0.peak_initializers();
            }
            Hasher allhash;
            allhash.add(rr.hash);

            // ---------- (a) secondary-stack exhaustion ----------
            auto run_stack_fault = [&](long step, long free_cells, bool every_step) {
                Session s(prob, 0, false);
                s.fault().stack_step = every_step ? -1 : step;
                s.fault().stack_every_step = every_step;
                s.fault().stack_free = free_cells;
                s.fault().stack_fired = 0;
                EventOutcome eo = s.run_event(target, budget);
                ++rr.weight;
                long fired = s.fault().stack_fired;
                s.fault().stack_step = -1;
                s.fault().stack_every_step = false;
                std::string where = (every_step ? std::string("every step")
                                                : "step " + std::to_string(step))
                                    + " free=" + std::to_string(free_cells);
                std::string fp = every_step ? "every" : "one";
                if (fired)
                    rr.fault("stack_exhaust", fired);
                if (eo.threw)
                {
                    rr.violate("C16",
                               "exception-under-stack-exhaustion",
                               "exception-under-stack-exhaustion",
                               "stepping threw with a starved secondary stack (" + where
                                   + "): " + eo.error);
                    return;
                }
                if (!eo.completed && eo.budget_exhausted && history_made_progress(s.history()))
                {
                    // cost cap reached while tracks were still moving: inconclusive
                    rr.count("skipped_step_budget_exhausted");
                    return;
                }
                if (!eo.completed)
                {
                    rr.violate("C16",
                               "no-termination-under-stack-exhaustion",
                               "no-termination-under-stack-exhaustion",
                               "event did not finish within the step budget with a starved "
                               "secondary stack ("
                                   + where + ")");
                    return;
                }
                // energy balance must hold exactly (C01's oracle under the fault)
                RunResult sub;
                OracleOpts oo;
                oo.c02 = true;
                oo.c05 = false;
                oo.c17 = false;
                oo.faults_injected = true;
                check_history(s.history(), prob, oo, sub);
                for (auto const& v : sub.violations)
                {
                    rr.violate("C16",
                               "under-stack-exhaustion:" + v.klass,
                               "under-stack-exhaustion:" + v.fingerprint,
                               "(" + where + ") " + v.property + " oracle: " + v.message);
                }
                // failed interactions: alive, nothing emitted; stack never over capacity
                long nfailed = 0;
                for (auto const& f : s.history().frames)
                {
                    for (int p = 0; p < 3; ++p)
                        if (f.stack[p].size > f.stack[p].capacity)
                            rr.violate("C16",
                                       "stack-size-exceeds-capacity",
                                       "stack-size-exceeds-capacity",
                                       "secondary stack size " + std::to_string(f.stack[p].size)
                                           + " > capacity " + std::to_string(f.stack[p].capacity)
                                           + " at step " + std::to_string(f.step) + " (" + where
                                           + ")");
                    auto const& pre = f.obs[(int)Point::pre];
                    auto const& post = f.obs[(int)Point::post];
                    for (std::size_t sl = 0; sl < post.size(); ++sl)
                    {
                        SlotObs const& c = post[sl];
                        if (!c.active() || c.post_action != failure_action)
                            continue;
                        ++nfailed;
                        if (c.status != 2)
                            rr.violate("C16",
                                       "failed-interaction-track-not-alive",
                                       "failed-interaction-track-not-alive",
                                       "track whose interaction failed for lack of secondary "
                                       "storage is not alive (status "
                                           + std::to_string(c.status) + ", " + where + ")");
                        std::size_t nsec = 0;
                        for (auto const& sec : c.secondaries)
                            if (sec.particle != kNone)
                                ++nsec;
                        if (nsec != 0)
                            rr.violate("C16",
                                       "failed-interaction-emitted-secondaries",
                                       "failed-interaction-emitted-secondaries",
                                       "track whose interaction failed still has "
                                           + std::to_string(nsec) + " secondaries (" + where + ")");
                        if (c.particle != pre[sl].particle)
                            rr.violate("C16",
                                       "failed-interaction-changed-particle",
                                       "failed-interaction-changed-particle",
                                       "track changed particle type in a failed interaction");
                    }
                }
                if (nfailed)
                    rr.probe("failed_interactions", nfailed);
                RunResult shp;
                history_shape(s.history(), shp);
                Hasher sh;
                sh.add(shp.shape);
                sh.add(nfailed);
                if (nfailed > 0)
                    rr.extra_shapes.push_back(sh.value());
                allhash.add(s.history().hash());
            };

            if (!only)
            {
                // choose steps: all if few, else a seeded sample
                std::vector<std::size_t> idx(alloc_steps.size());
                for (std::size_t i = 0; i < idx.size(); ++i)
                    idx[i] = i;
                std::size_t maxs = plan.value("max_stack_steps", 10);
                if (idx.size() > maxs)
                {
                    rf.shuffle(idx);
                    idx.resize(maxs);
                    std::sort(idx.begin(), idx.end());
                }
                else
                {
                    rr.count("events_with_all_allocating_steps_enumerated");
                }
                for (auto i : idx)
                {
                    long step = alloc_steps[i].first;
                    long need = alloc_steps[i].second;
                    for (long free_cells = 0; free_cells < need; ++free_cells)
                    {
                        if (need > 8 && free_cells > 3 && free_cells < need - 2)
                            continue;  // ends of the range when many cells are needed
                        run_stack_fault(step, free_cells, false);
                        rr.count("stack_fault_points");
                    }
                }
                // whole event with a tiny stack
                for (long cells : {0l, 1l, 2l})
                {
                    if (cells < (long)stack_capacity)
                    {
                        run_stack_fault(-1, cells, true);
                        rr.count("tiny_stack_runs");
                    }
                }
            }
            else if (plan["only"].value("kind", "") == "stack")
            {
                run_stack_fault(plan["only"].value("step", 0L),
                                plan["only"].value("free", 0L),
                                plan["only"].value("every", false));
            }

            // ---------- (b) initializer capacity ----------
            auto run_cap = [&](std::uint32_t cap) {
                json c2 = cfg;
                c2["capacity"] = cap;
                Problem p2 = build_problem(plan.at("problem"), c2);
                Session s(p2, 0, false);
                EventOutcome eo = s.run_event(target, budget);
                ++rr.weight;
                std::string where = "capacity=" + std::to_string(cap) + " peak="
                                    + std::to_string(peak);
                if (cap < peak)
                {
                    rr.fault("init_capacity");
                    if (!eo.threw)
                    {
                        rr.violate("C16",
                                   "overflow-not-reported",
                                   "overflow-not-reported",
                                   "initializer demand exceeded the capacity but stepping did "
                                   "not stop with an error ("
                                       + where + ")");
                        return;
                    }
                    if (!eo.threw_runtime_error)
                    {
                        rr.violate("C16",
                                   "overflow-wrong-error",
                                   "overflow-wrong-error",
                                   "capacity overflow did not surface as celeritas::RuntimeError "
                                   "("
                                       + where + "): " + eo.error);
                        return;
                    }
                    // recover: reset, reseed, later event equals fresh reference
                    s.reset();
                    rr.fault("reset_reuse");
                    std::size_t first = s.history().frames.size();
                    EventOutcome e2 = s.run_event(later, budget);
                    if (!e2.completed)
                    {
                        // the later event may itself exceed this small capacity
                        if (e2.threw_runtime_error && cap < later_peak)
                        {
                            rr.count("later_event_also_overflowed");
                            return;
                        }
                        rr.violate("C16",
                                   "later-event-failed-after-reset",
                                   "later-event-failed-after-reset",
                                   "after overflow + reset_state the next event did not run: "
                                       + e2.error + " (" + where + ")");
                        return;
                    }
                    std::uint64_t d = tracks_digest(s.history(), first);
                    rr.count("recovery_histories_compared");
                    if (d != later_ref)
                        rr.violate("C16",
                                   "later-event-differs-after-reset",
                                   "later-event-differs-after-reset",
                                   "after overflow + reset_state the next event's history "
                                   "differs from its fresh-state run ("
                                       + where + ")");
                    Hasher sh;
                    sh.add(cap);
                    sh.add(peak);
                    sh.add(s.history().frames.size());
                    rr.extra_shapes.push_back(sh.value());
                }
                else
                {
                    if (eo.threw)
                        rr.violate("C16",
                                   "spurious-overflow",
                                   "spurious-overflow",
                                   "capacity equal to the peak demand was reported as "
                                   "insufficient ("
                                       + where + "): " + eo.error);
                }
                allhash.add(s.history().hash());
            };
            if (!only)
            {
                if (peak > 1)
                {
                    std::vector<std::uint32_t> caps;
                    for (std::uint32_t c = 1; c < peak; ++c)
                        caps.push_back(c);
                    std::size_t maxc = plan.value("max_caps", 6);
                    if (caps.size() > maxc)
                    {
                        // always keep the ends
                        std::vector<std::uint32_t> keep = {1, peak - 1};
                        std::vector<std::uint32_t> mid(caps.begin() + 1, caps.end() - 1);
                        rf.shuffle(mid);
                        for (std::size_t k = 0; k + 2 < maxc && k < mid.size(); ++k)
                            keep.push_back(mid[k]);
                        caps = keep;
                    }
                    else
                    {
                        rr.count("events_with_all_capacities_enumerated");
                    }
                    for (auto c : caps)
                        run_cap(c);
                }
                run_cap(std::max<std::uint32_t>(peak, 1));
            }
            else if (plan["only"].value("kind", "") == "cap")
            {
                run_cap(plan["only"].value("cap", 1u));
            }
            rr.hash = allhash.value();
            json s;
            s["geometry"] = plan["problem"]["geometry"]["file"];
            s["slots"] = cfg["slots"];
            s["track_order"] = cfg["track_order"];
            s["allocating_steps"] = alloc_steps.size();
            s["peak_initializers"] = peak;
            s["stack_capacity"] = stack_capacity;
            s["executions"] = rr.weight;
            rr.sample = s;
            rr.count("order:" + cfg["track_order"].get<std::string>());
        }
        catch (std::exception const& e)
        {
            rr.violate("C16",
                       "setup-exception",
                       "setup-exception",
                       std::string("problem construction or stepping threw: ") + e.what());
        }
        if (rr.weight == 0)
            rr.weight = 1;
        return rr;
    }

    std::vector<json> shrink(json const& plan) const override
    {
        std::vector<json> out;
        if (!plan.contains("only"))
        {
            for (long step = 0; step < 40; ++step)
                for (long fr : {0l, 1l, 2l})
                {
                    json p = plan;
                    p["only"] = {{"kind", "stack"}, {"step", step}, {"free", fr}};
                    out.push_back(p);
                }
            for (long fr : {0l, 1l, 2l})
            {
                json p = plan;
                p["only"] = {{"kind", "stack"}, {"every", true}, {"free", fr}};
                out.push_back(p);
            }
            for (unsigned c = 1; c <= 32; ++c)
            {
                json p = plan;
                p["only"] = {{"kind", "cap"}, {"cap", c}};
                out.push_back(p);
            }
        }
        for (char const* which : {"target", "later"})
        {
            auto const& bs = plan[which]["batches"];
            for (std::size_t b = 0; b < bs.size(); ++b)
            {
                auto const& pr = bs[b]["primaries"];
                if (pr.size() > 1)
                    for (std::size_t k = 0; k < pr.size(); ++k)
                    {
                        json p = plan;
                        p[which]["batches"][b]["primaries"].erase(k);
                        out.push_back(p);
                    }
            }
        }
        if (plan["config"]["track_order"] != "none")
        {
            json p = plan;
            p["config"]["track_order"] = "none";
            out.push_back(p);
        }
        unsigned slots = plan["config"]["slots"];
        for (unsigned s : {1u, 2u, slots / 2})
            if (s >= 1 && s < slots)
            {
                json p = plan;
                p["config"]["slots"] = s;
                out.push_back(p);
            }
        return out;
    }

    json describe(CheckSpec const&) const override
    {
        json d;
        d["level"] = "fault_enumeration";
        d["rule"]
            = "Each plan: a generated problem and event. The fault-free run lists every step "
              "that allocates secondaries (with the number of cells used) and the peak "
              "initializer demand. Enumerated faults: (a) for every allocating step (all of them "
              "up to max_stack_steps, else a seeded sample) and every free-cell count 0..need-1, "
              "the event is re-run with the secondary stack pre-filled at user_pre of that step; "
              "three whole-event runs keep 0/1/2 free cells at every step; (b) initializer "
              "capacities 1..peak-1 (all of them up to max_caps, else ends + seeded sample) and "
              "capacity == peak. evaluations = executions of the event; distinct_nontrivial = "
              "distinct (history shape, number of failed interactions) of runs in which at least "
              "one interaction failed + distinct (capacity, peak, steps) overflow recoveries.";
        d["components"] = {
            {"real",
             {"StackAllocator<Secondary>", "InteractionApplier failure path",
              "PreStepExecutor stack clear", "ExtendFromSecondaries/Primaries capacity validation",
              "Stepper::reset_state", "CoreState::reset", "all of world T"}},
            {"stub", {"StubProcess/StubModel (allocates through the real StackAllocator)"}}};
        d["assumptions"]
            = {"stack fullness is injected by raising the stack's size cell from a user_pre "
               "action (as if other threads had allocated first)",
               "the zero step length written by the failure path is not judged (not part of C16)"};
        return d;
    }

    std::uint64_t default_runs(CheckSpec const& spec) const override
    {
        return spec.tier == "thorough" ? 4000 : 120;
    }
};

std::unique_ptr<World> make_world_t16()
{
    return std::make_unique<WorldT16>();
}
RegisterWorld reg_t16({"C16"}, &make_world_t16);
}  // namespace
}  // namespace vsim
