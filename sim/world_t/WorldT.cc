// World T: the transport world.  Real Stepper / CoreState / actions / track
// initialisation / along-step / ORANGE navigation, simulator-owned physics.
#include "WorldT.hh"

#include <cmath>
#include <iostream>
#include <set>

#include "PlanGen.hh"
#include "Session.hh"

using namespace celeritas;

namespace vsim
{
//---------------------------------------------------------------------------//
json WorldT::make_plan(CheckSpec const& spec, std::uint64_t index) const
{
    Rng root(mix64(spec.seed) ^ mix64(index * 0x9e3779b97f4a7c15ull + 17));
    Rng rp = root.sub("plan2");
    Rng rw = root.sub("workload");
    bool thorough = spec.tier == "thorough";

    json plan;
    plan["world"] = "T";
    plan["property"] = spec.property;
    plan["seed"] = spec.seed;
    plan["index"] = index;
    GenCtx ctx = gen_problem_config(spec, root);
    plan["problem"] = ctx.problem;
    plan["config"] = ctx.config;

    json ops = json::array();
    int nev = 1 + (int)rw.below(3);
    unsigned max_event = 0;
    bool merged = rw.coin(0.25);
    int maxprim = thorough ? 24 : 8;
    for (int e = 0; e < nev; ++e)
    {
        json op = gen_event_op(ctx, rw, maxprim, merged, true, &max_event);
        if (!op["batches"].empty())
            ops.push_back(op);
    }
    plan["config"]["max_events"] = max_event + 1 + (unsigned)rp.below(3);
    plan["ops"] = ops;
    plan["step_budget"] = 60000;
    return plan;
}

//---------------------------------------------------------------------------//
namespace
{
struct ExecOut
{
    History hist;
    bool budget_exhausted{false};
    bool threw{false};
    std::string error;
    std::uint32_t peak_initializers{0};
};

//! Execute the ops of a plan on a fresh problem/state
ExecOut run_ops(json const& plan, json const& cfg, Problem& prob)
{
    ExecOut out;
    Session ses(prob, 0, cfg.value("action_times", false));
    long budget = plan.value("step_budget", 200000);
    for (auto const& op : plan.at("ops"))
    {
        std::string kind = op.at("op");
        if (kind == "event")
        {
            EventOutcome eo = ses.run_event(op, budget - ses.total_steps());
            if (eo.threw)
            {
                out.threw = true;
                out.error = eo.error;
                break;
            }
            if (eo.budget_exhausted)
            {
                out.budget_exhausted = true;
                break;
            }
        }
        else if (kind == "warm_up")
            ses.warm_up();
        else if (kind == "reset")
            ses.reset();
    }
    out.peak_initializers = ses.peak_initializers();
    out.hist = std::move(ses.history());
    return out;
}
}  // namespace

//---------------------------------------------------------------------------//
RunResult WorldT::execute(json const& plan) const
{
    RunResult rr;
    std::string property = plan.at("property");
    json cfg = plan.at("config");
    try
    {
        ExecOut ex;
        std::unique_ptr<Problem> prob;
        if (cfg.value("capacity_mode", "ample") == "exact")
        {
            // pass 1: measure the peak initializer demand with ample capacity
            {
                Problem p1 = build_problem(plan.at("problem"), cfg);
                ExecOut e1 = run_ops(plan, cfg, p1);
                cfg["capacity"] = std::max<std::uint32_t>(1, e1.peak_initializers);
                rr.count("exact_capacity_runs");
                rr.stats["max_exact_capacity"] = (long)e1.peak_initializers;
            }
        }
        prob = std::make_unique<Problem>(build_problem(plan.at("problem"), cfg));
        ex = run_ops(plan, cfg, *prob);

        OracleOpts oo;
        oo.step_budget = plan.value("step_budget", 200000);
        oo.budget_exhausted = ex.budget_exhausted;
        oo.expect_complete = !ex.threw;
        std::string gpath = plan["problem"]["geometry"]["file"];
        oo.probe = geo_info(gpath).probe.get();
        oo.geo_tol = 1e-5;
        if (plan["problem"]["along"]["kind"] == "field")
        {
            double di = 1e-5;  // FieldDriverOptions default [cm]
            if (plan["problem"]["along"].contains("driver"))
                di = plan["problem"]["along"]["driver"].value("delta_intersection", di);
            double es = 1e-5;  // epsilon_step default
            if (plan["problem"]["along"].contains("driver"))
                es = plan["problem"]["along"]["driver"].value("epsilon_step", es);
            oo.field_disp_tol = 2 * di;
            oo.field_rel_tol = es;
            auto const& al = plan["problem"]["along"];
            if (al.contains("field"))
                for (int k = 0; k < 3; ++k)
                    oo.field_tesla[k] = al["field"][k].get<double>();
            oo.field_delta_chord = 0.025;  // FieldDriverOptions default [cm]
            if (al.contains("driver"))
            {
                oo.field_delta_chord = al["driver"].value("delta_chord", oo.field_delta_chord);
                oo.field_max_nsteps = al["driver"].value("max_nsteps", oo.field_max_nsteps);
                oo.field_minimum_step = al["driver"].value("minimum_step", oo.field_minimum_step);
            }
        }
        if (std::getenv("VSIM_TRACE"))
        {
            std::cerr.precision(17);
            for (auto const& f : ex.hist.frames)
            {
                std::cerr << "frame " << f.step << " nprim=" << f.n_primaries << " kill=" << f.after_kill
                          << " res(g,q,a,al)=" << f.res_generated << "," << f.res_queued << ","
                          << f.res_active << "," << f.res_alive << " completed=" << f.completed
                          << "\n";
                for (int p = 0; p < 3; ++p)
                    for (std::size_t s = 0; s < f.obs[p].size(); ++s)
                    {
                        auto const& o = f.obs[p][s];
                        if (!o.active())
                            continue;
                        std::string act = o.post_action < prob->action_labels.size()
                                              ? prob->action_labels[o.post_action]
                                              : "-";
                        std::cerr << "   " << (p == 0 ? "start" : p == 1 ? "pre  " : "post ")
                                  << " slot " << s << " ev " << (int)o.event << " trk " << (int)o.track
                                  << " par " << (int)o.parent << " n " << o.num_steps << " st "
                                  << o.status << " p " << (int)o.particle << " E " << o.energy
                                  << " pos (" << o.pos[0] << "," << o.pos[1] << "," << o.pos[2]
                                  << ") dir (" << o.dir[0] << "," << o.dir[1] << "," << o.dir[2]
                                  << ") vol " << (int)o.volume << " out " << (int)o.outside << " onb "
                                  << (int)o.on_boundary << " len " << o.step_length << " dep "
                                  << o.deposit << " act " << act << " nsec " << o.secondaries.size()
                                  << "\n";
                    }
            }
        }
        check_history(ex.hist, *prob, oo, rr);
        if (!ex.threw && !ex.budget_exhausted)
            check_tallies(ex.hist, *prob, rr);
        history_shape(ex.hist, rr);
        rr.hash = ex.hist.hash();
        if (ex.threw)
        {
            // No fault was injected in this world: stepping must not throw
            for (char const* p : {"C01", "C02", "C05", "C17"})
                rr.violate(p,
                           "unexpected-exception",
                           "unexpected-exception",
                           "stepping threw without an injected fault: " + ex.error);
        }
        // evidence sample
        json s;
        s["geometry"] = gpath.substr(gpath.rfind('/') + 1);
        s["slots"] = cfg["slots"];
        s["track_order"] = cfg["track_order"];
        s["capacity"] = cfg["capacity"];
        s["along"] = plan["problem"]["along"]["kind"];
        s["steps"] = ex.hist.frames.size();
        long np = 0;
        for (auto const& op : plan["ops"])
            for (auto const& b : op["batches"])
                np += b["primaries"].size();
        s["primaries"] = np;
        s["events_ops"] = plan["ops"].size();
        s["callbacks"] = cfg["callbacks"].size();
        rr.sample = s;
        rr.count("along:" + plan["problem"]["along"]["kind"].get<std::string>());
        rr.count("order:" + cfg["track_order"].get<std::string>());
        rr.count(std::string("slots:") + (prob->slots == 1 ? "1" : prob->slots == 2 ? "2" : prob->slots <= 8 ? "3-8" : "9-64"));
    }
    catch (std::exception const& e)
    {
        for (char const* p : {"C01", "C02", "C05", "C17"})
            rr.violate(p,
                       "setup-exception",
                       "setup-exception",
                       std::string("problem construction or stepping threw: ") + e.what());
    }
    return rr;
}

//---------------------------------------------------------------------------//
std::vector<json> WorldT::shrink(json const& plan) const
{
    std::vector<json> out;
    json const& ops = plan.at("ops");
    // drop an op
    if (ops.size() > 1)
    {
        for (std::size_t i = 0; i < ops.size(); ++i)
        {
            json p = plan;
            p["ops"].erase(i);
            out.push_back(p);
        }
    }
    // drop a batch / halve primaries / drop single primaries
    for (std::size_t i = 0; i < ops.size(); ++i)
    {
        if (!ops[i].contains("batches"))
            continue;
        auto const& bs = ops[i]["batches"];
        if (bs.size() > 1)
        {
            for (std::size_t b = 0; b < bs.size(); ++b)
            {
                json p = plan;
                p["ops"][i]["batches"].erase(b);
                out.push_back(p);
            }
        }
        for (std::size_t b = 0; b < bs.size(); ++b)
        {
            auto const& pr = bs[b]["primaries"];
            if (pr.size() > 1)
            {
                json p = plan;
                json half = json::array();
                for (std::size_t k = 0; k < pr.size() / 2; ++k)
                    half.push_back(pr[k]);
                p["ops"][i]["batches"][b]["primaries"] = half;
                out.push_back(p);
                json q = plan;
                json half2 = json::array();
                for (std::size_t k = pr.size() / 2; k < pr.size(); ++k)
                    half2.push_back(pr[k]);
                q["ops"][i]["batches"][b]["primaries"] = half2;
                out.push_back(q);
            }
            if (pr.size() > 1 && pr.size() <= 6)
            {
                for (std::size_t k = 0; k < pr.size(); ++k)
                {
                    json p = plan;
                    p["ops"][i]["batches"][b]["primaries"].erase(k);
                    out.push_back(p);
                }
            }
        }
    }
    // simplify config
    auto set_cfg = [&](char const* key, json val) {
        if (plan["config"].contains(key) && plan["config"][key] != val)
        {
            json p = plan;
            p["config"][key] = val;
            out.push_back(p);
        }
    };
    set_cfg("track_order", "none");
    set_cfg("capacity_mode", "ample");
    set_cfg("status_checker", false);
    set_cfg("action_times", false);
    set_cfg("diagnostics", false);
    if (plan["config"].contains("callbacks") && !plan["config"]["callbacks"].empty()
        && plan["property"] != "C17")
    {
        json p = plan;
        p["config"]["callbacks"] = json::array();
        p["config"].erase("calo");
        out.push_back(p);
    }
    unsigned slots = plan["config"]["slots"];
    for (unsigned s : {1u, 2u, slots / 2})
    {
        if (s >= 1 && s < slots)
        {
            json p = plan;
            p["config"]["slots"] = s;
            out.push_back(p);
        }
    }
    // simplify physics: drop a process if its particle keeps another one
    auto const& procs = plan["problem"]["procs"];
    for (std::size_t i = 0; i < procs.size(); ++i)
    {
        int same = 0;
        for (auto const& q : procs)
            if (q["particle"] == procs[i]["particle"])
                ++same;
        if (same > 1)
        {
            json p = plan;
            p["problem"]["procs"].erase(i);
            out.push_back(p);
        }
    }
    if (plan["problem"]["along"]["kind"] == "field" && plan["property"] != "C08")
    {
        json p = plan;
        p["problem"]["along"]["kind"] = "linear";
        out.push_back(p);
    }
    if (plan["problem"]["along"].value("fluct", false))
    {
        json p = plan;
        p["problem"]["along"]["fluct"] = false;
        out.push_back(p);
    }
    if (plan["problem"]["cut"].value("apply", false))
    {
        json p = plan;
        p["problem"]["cut"]["apply"] = false;
        out.push_back(p);
    }
    return out;
}

//---------------------------------------------------------------------------//
json WorldT::describe(CheckSpec const& spec) const
{
    json d;
    d["level"] = "exploration";
    std::string rule
        = "Each evaluation is one seeded plan: a generated problem (bundled ORANGE geometry, "
          "1-3 materials, gamma/e-/e+ with simulator-owned stub processes over random positive "
          "xs/dEdx/range tables -- and, in a third of the problems, additionally the REAL "
          "KleinNishinaModel, MollerBhabhaModel (simulator-owned cross-section table, zero up to "
          "a knot above twice the electron cut) and EPlusAnnihilationProcess/EPlusGGModel "
          "(on-the-fly cross section, also at rest) in the same loop --, cuts, physics options, along-step neutral|linear(mean/fluct)|"
          "uniform-field) x configuration (1-64 slots, 8 track orders, exact or ample "
          "initializer capacity, timing, status checker, callbacks) x workload (1-3 event ops, "
          "merged events, primaries arriving mid-flight) run on the real Stepper; the recorded "
          "history is judged by the property's oracle after every step and at the end. A run is "
          "non-trivial if secondaries were born, more than one track ended and it took more than "
          "two steps; distinct = distinct hashes of the per-step (active, alive, queued, deaths, "
          "births) sequence.";
    d["rule"] = rule;
    d["components"] = {
        {"real",
         {"Stepper<host>", "CoreState", "ActionSequence", "ExtendFromPrimaries/Secondaries",
          "InitializeTracks", "PreStep", "DiscreteSelect", "InteractionApplier", "TrackingCut",
          "Boundary", "AlongStepNeutral/GeneralLinear/UniformMsc (no MSC)", "PhysicsParams + grids",
          "CutoffParams", "SortTracksAction", "StatusChecker", "StepCollector", "SimpleCalo",
          "ActionDiagnostic", "StepDiagnostic", "ORANGE navigation", "XorwowRngEngine + reseed",
          "real-physics plans: KleinNishinaModel, MollerBhabhaModel, EPlusAnnihilationProcess + "
          "EPlusGGModel (hardwired on-the-fly xs)"}},
        {"stub", {"StubProcess/StubModel (simulator-owned interaction outcome generator)"}},
        {"not_run", {"EM models that need imported data (they run on the bench, world I)", "Urban MSC", "device code"}}};
    d["assumptions"] = {
        "physics tables are synthetic (no Geant4 data offline)",
        "MPI and OpenMP are configured off in the verification build",
        "observer actions read state through the library's own track views",
        "CELERITAS_DEBUG off (shipped configuration)"};
    (void)spec;
    return d;
}

std::uint64_t WorldT::default_runs(CheckSpec const& spec) const
{
    return spec.tier == "thorough" ? 60000 : 1200;
}

static std::unique_ptr<World> make_world_t()
{
    return std::make_unique<WorldT>();
}
static RegisterWorld reg_t({"C01", "C02", "C05", "C17"}, &make_world_t);

}  // namespace vsim
