// World T: the transport world.  Real Stepper / CoreState / actions / track
// initialisation / along-step / ORANGE navigation, simulator-owned physics.
#include "WorldT.hh"

#include <cmath>
#include <iostream>
#include <set>

#include "corecel/Assert.hh"
#include "corecel/cont/Span.hh"
#include "corecel/io/Label.hh"
#include "celeritas/geo/GeoParams.hh"
#include "celeritas/global/Stepper.hh"
#include "celeritas/phys/Primary.hh"

using namespace celeritas;

namespace vsim
{
namespace
{
std::string repo_dir()
{
    return VERIF_REPO_DIR;
}

struct GeoChoice
{
    char const* path;
    double weight;
};

std::vector<GeoChoice> const& geo_choices()
{
    static std::vector<GeoChoice> const v = {
        {"test/geocel/data/two-boxes.org.json", 3},
        {"test/geocel/data/three-spheres.org.json", 3},
        {"test/geocel/data/four-steel-slabs.org.json", 3},
        {"test/geocel/data/one-steel-sphere.org.json", 2},
        {"test/geocel/data/lar-sphere.org.json", 1},
        {"test/geocel/data/lead-box.org.json", 1},
        {"test/geocel/data/field-layers.org.json", 2},
        {"test/geocel/data/simple-cms.org.json", 3},
        {"test/geocel/data/testem15.org.json", 1},
        {"test/geocel/data/testem3-flat.org.json", 1},
        {"test/orange/data/five-volumes.org.json", 2},
        {"test/orange/data/universes.org.json", 3},
        {"test/orange/data/rect-array.org.json", 2},
        {"test/orange/data/nested-rect-arrays.org.json", 2},
        {"test/orange/data/hex-array.org.json", 2},
        {"test/orange/data/inputbuilder-hierarchy.org.json", 2},
        {"test/orange/data/inputbuilder-universes.org.json", 2},
        {"test/orange/data/inputbuilder-globalspheres.org.json", 1},
        {"test/orange/data/inputbuilder-bgspheres.org.json", 1},
        {"test/orange/data/testem3.org.json", 0.5},
    };
    return v;
}

struct GeoInfo
{
    std::shared_ptr<GeoParams const> geo;
    std::unique_ptr<GeoProbe> probe;
    double lo[3], hi[3];
    double scale;
    std::vector<std::string> vol_names;
};

GeoInfo const& geo_info(std::string const& path)
{
    static std::map<std::string, std::unique_ptr<GeoInfo>> cache;
    auto it = cache.find(path);
    if (it != cache.end())
        return *it->second;
    auto gi = std::make_unique<GeoInfo>();
    gi->geo = load_geometry(json{{"file", path}});
    gi->probe = std::make_unique<GeoProbe>(gi->geo);
    auto const& bb = gi->geo->bbox();
    double scale = 0;
    for (int k = 0; k < 3; ++k)
    {
        double lo = bb.lower()[k], hi = bb.upper()[k];
        if (!std::isfinite(lo) || lo < -1e4)
            lo = -100;
        if (!std::isfinite(hi) || hi > 1e4)
            hi = 100;
        gi->lo[k] = lo;
        gi->hi[k] = hi;
        scale = std::max(scale, hi - lo);
    }
    gi->scale = scale;
    auto const& vols = gi->geo->volumes();
    for (auto v : range(VolumeId{vols.size()}))
        gi->vol_names.push_back(vols.at(v).name);
    auto& ref = *gi;
    cache[path] = std::move(gi);
    return ref;
}

std::vector<double> random_table(Rng& r, int n, double base, double spread)
{
    std::vector<double> v(n);
    for (auto& x : v)
        x = base * r.log_uniform(1 / spread, spread);
    return v;
}

json selection_json(Rng& r, bool all)
{
    auto pt = [&](bool a) {
        return json{{"time", a || r.coin(0.5)},
                    {"pos", a || r.coin(0.5)},
                    {"dir", a || r.coin(0.5)},
                    {"volume_id", a || r.coin(0.5)},
                    {"energy", a || r.coin(0.5)}};
    };
    json j;
    j["pre"] = pt(all);
    j["post"] = pt(all);
    j["event_id"] = all || r.coin(0.5);
    j["parent_id"] = all || r.coin(0.5);
    j["track_step_count"] = all || r.coin(0.5);
    j["action_id"] = all || r.coin(0.5);
    j["step_length"] = all || r.coin(0.5);
    j["particle"] = all || r.coin(0.5);
    j["energy_deposition"] = true;
    return j;
}

}  // namespace

//---------------------------------------------------------------------------//
json WorldT::make_plan(CheckSpec const& spec, std::uint64_t index) const
{
    Rng root(mix64(spec.seed) ^ mix64(index * 0x9e3779b97f4a7c15ull + 17));
    Rng rp = root.sub("plan");
    Rng rg = root.sub("geom");
    Rng rph = root.sub("phys");
    Rng rw = root.sub("workload");
    Rng rf = root.sub("fault");
    bool thorough = spec.tier == "thorough";

    json plan;
    plan["world"] = "T";
    plan["property"] = spec.property;
    plan["seed"] = spec.seed;
    plan["index"] = index;

    // ---- geometry ----
    std::vector<double> w;
    for (auto const& g : geo_choices())
        w.push_back(g.weight);
    auto const& gc = geo_choices()[rg.weighted(w)];
    std::string gpath = repo_dir() + "/" + gc.path;
    GeoInfo const& gi = geo_info(gpath);
    json problem;
    problem["geometry"] = {{"file", gpath}};
    unsigned nmat = 1 + rg.below(3);
    problem["n_materials"] = nmat;
    json vol_mat = json::array();
    for (auto const& name : gi.vol_names)
    {
        bool exterior = !name.empty() && name.front() == '[';
        vol_mat.push_back(exterior ? -1 : (int)rg.below(nmat));
    }
    problem["vol_mat"] = vol_mat;
    double L = gi.scale;

    // ---- particles ----
    bool with_positron = rph.coin(0.7);
    std::vector<std::string> particles = {"gamma", "electron"};
    if (with_positron)
        particles.push_back("positron");
    problem["particles"] = particles;

    // ---- physics ----
    double emin = rph.coin(0.5) ? 1e-4 : 1e-3;
    double emax = rph.coin(0.5) ? 1e2 : 1e3;
    double e_hi = emax * (rph.coin(0.2) ? 1.0 : rph.log_uniform(1e-2, 1.0));  // primary energy scale
    double e_floor = e_hi * rph.log_uniform(1e-3, 3e-2);
    std::string along_kind;
    {
        double u = rph.uniform();
        along_kind = u < 0.15 ? "neutral" : (u < 0.8 ? "linear" : "field");
    }
    if (spec.property == "C08")
        along_kind = "field";
    bool charged_eloss = along_kind != "neutral";
    json procs = json::array();
    int pcount = 0;
    for (auto const& pname : particles)
    {
        bool charged = pname != "gamma";
        int nproc = 1 + (int)rph.below(2);
        // Electrons only: half of the problems have zero cross section at the
        // lowest knot(s), so the particle has no at-rest process and a stopped
        // electron ends by range.  Positrons always keep an at-rest process
        // (a physics list without e+ annihilation is not a valid problem).
        bool zero_low_xs = pname == "electron" && charged_eloss && rph.coin(0.5);
        for (int ip = 0; ip < nproc; ++ip)
        {
            json pr;
            pr["label"] = "p" + std::to_string(pcount++) + "-" + pname;
            pr["particle"] = pname;
            pr["emin"] = emin;
            pr["emax"] = emax;
            int nk = 3 + (int)rph.below(8);
            double mfp = L * rph.log_uniform(0.03, 3.0);
            json xs = json::array();
            for (unsigned m = 0; m < nmat; ++m)
            {
                auto t = random_table(rph, nk, 1 / mfp * rph.log_uniform(0.3, 3), 2.0);
                if (zero_low_xs)
                {
                    t[0] = 0;
                    if (nk > 4 && rph.coin(0.5))
                        t[1] = 0;
                }
                xs.push_back(t);
            }
            pr["xs"] = xs;
            bool has_eloss = charged && charged_eloss && ip == 0;
            if (has_eloss)
            {
                // range of a particle at e_hi between 0.05 L and 5 L
                double rng_len = L * rph.log_uniform(0.05, 5.0);
                json el = json::array();
                for (unsigned m = 0; m < nmat; ++m)
                    el.push_back(random_table(rph, nk, e_hi / rng_len * rph.log_uniform(0.5, 2), 1.6));
                pr["eloss"] = el;
                pr["integral"] = rph.coin(0.5);
            }
            else
            {
                pr["eloss"] = nullptr;
                pr["integral"] = false;
            }
            json in;
            in["p_absorb"] = rph.uniform(0.15, 0.7);
            in["p_unchanged"] = rph.coin(0.3) ? rph.uniform(0, 0.3) : 0.0;
            in["p_soft"] = rph.uniform(0, 0.5);
            in["kmax"] = (int)rph.below(4);
            in["e_floor"] = e_floor;
            std::vector<std::string> sp;
            for (auto const& q : particles)
                if (rph.coin(0.7))
                    sp.push_back(q);
            if (sp.empty())
                sp.push_back("gamma");
            in["species"] = sp;
            pr["inter"] = in;
            procs.push_back(pr);
        }
    }
    problem["procs"] = procs;

    // cuts
    json cut;
    cut["apply"] = rph.coin(0.5);
    for (auto const& pname : particles)
    {
        json arr = json::array();
        for (unsigned m = 0; m < nmat; ++m)
            arr.push_back(rph.coin(0.2) ? 0.0 : e_hi * rph.log_uniform(1e-5, 2.0));
        cut[pname] = arr;
    }
    problem["cut"] = cut;

    json opt;
    opt["lowest_electron_energy"] = e_hi * rph.log_uniform(1e-5, 1e-1);
    opt["linear_loss_limit"] = rph.coin(0.2) ? (rph.coin(0.5) ? 0.0 : 1.0) : rph.uniform(0, 0.2);
    opt["min_range"] = L * rph.log_uniform(1e-4, 1.0);
    opt["max_step_over_range"] = rph.uniform(0.05, 1.0);
    opt["fixed_step_limiter"] = rph.coin(0.15) ? L * rph.log_uniform(1e-2, 1.0) : 0.0;
    opt["min_eprime_over_e"] = rph.uniform(0.5, 0.95);
    opt["disable_integral_xs"] = rph.coin(0.1);
    problem["options"] = opt;

    json along;
    along["kind"] = along_kind;
    along["fluct"] = charged_eloss && rph.coin(0.4);
    if (along_kind == "field")
    {
        double b[3];
        rph.isotropic(b);
        double mag = rph.log_uniform(1e-3, 10.0);
        if (rph.coin(0.3))
        {
            b[0] = b[1] = 0;
            b[2] = 1;
        }
        along["field"] = {b[0] * mag, b[1] * mag, b[2] * mag};
        along["looping"] = {{"max_sub", 2 + (int)rph.below(10)},
                            {"max_steps", 5 + (int)rph.below(100)},
                            {"energy", e_hi * rph.log_uniform(1e-3, 1.0)}};
        if (rph.coin(0.5))
        {
            json d;
            double minstep = L * rph.log_uniform(1e-9, 1e-5);
            d["minimum_step"] = minstep;
            d["delta_intersection"] = minstep * rph.log_uniform(2, 1e3);
            d["delta_chord"] = L * rph.log_uniform(1e-5, 1e-2);
            d["epsilon_step"] = rph.log_uniform(1e-7, 1e-3);
            d["max_nsteps"] = 5 + (int)rph.below(200);
            d["max_substeps"] = 1 + (int)rph.below(20);
            along["driver"] = d;
        }
    }
    problem["along"] = along;
    plan["problem"] = problem;

    // ---- config ----
    json cfg;
    {
        double u = rp.uniform();
        unsigned slots = u < 0.15 ? 1 : (u < 0.3 ? 2 : (u < 0.7 ? 3 + rp.below(6) : 9 + rp.below(56)));
        cfg["slots"] = slots;
    }
    static char const* const orders[] = {"none",
                                         "init_charge",
                                         "reindex_shuffle",
                                         "reindex_status",
                                         "reindex_particle_type",
                                         "reindex_along_step_action",
                                         "reindex_step_limit_action",
                                         "reindex_both_action"};
    cfg["track_order"] = rp.coin(0.3) ? "none" : orders[rp.below(8)];
    cfg["capacity_mode"] = rp.coin(0.4) ? "exact" : "ample";
    cfg["capacity"] = 1 << 16;
    cfg["stack_factor"] = 4.0 + rp.below(3);  // >= kmax + 1: never exhausted
    cfg["action_times"] = rp.coin(0.2);
    cfg["status_checker"] = rp.coin(0.3);
    cfg["rng_seed"] = (unsigned)rp.below(1u << 30);
    cfg["diagnostics"] = rp.coin(0.5);

    // callbacks
    {
        json cbs = json::array();
        int ncb = (int)rp.below(3);
        if (spec.property == "C17")
            ncb = 1 + (int)rp.below(3);
        // candidate detector volumes: non-exterior volumes with unique names
        std::vector<std::uint32_t> cand;
        std::map<std::string, int> name_count;
        for (auto const& n : gi.vol_names)
            ++name_count[n];
        for (std::uint32_t v = 0; v < gi.vol_names.size(); ++v)
            if (vol_mat[v].get<int>() >= 0 && name_count[gi.vol_names[v]] == 1)
                cand.push_back(v);
        rp.shuffle(cand);
        int mode = (int)rp.below(3);  // 0 none, 1 some, 2 all volumes
        if (cand.empty())
            mode = 0;
        std::size_t ndet = mode == 0 ? 0 : (mode == 2 ? cand.size() : 1 + rp.below(cand.size()));
        ndet = std::min<std::size_t>(ndet, 64);
        bool use_calo = mode != 0 && rp.coin(0.4) && ndet >= 1;
        std::size_t pos = 0;
        if (use_calo)
        {
            std::size_t ncal = 1 + rp.below(ndet);
            json cv = json::array();
            for (; pos < ncal; ++pos)
                cv.push_back(cand[pos]);
            cfg["calo"] = cv;
        }
        // SimpleCalo indexes its tallies by the shared detector id, so it is
        // never combined with other detector callbacks in random plans (the
        // combination is exercised by a directed plan; see DESIGN findings)
        if (use_calo)
            ncb = 0;
        for (int i = 0; i < ncb; ++i)
        {
            json cb;
            cb["selection"] = selection_json(rp, rp.coin(0.4));
            if (mode != 0)
            {
                // disjoint share of the remaining detector volumes
                std::size_t remaining = ndet > pos ? ndet - pos : 0;
                std::size_t take = (i + 1 == ncb) ? remaining
                                                  : (remaining ? 1 + rp.below(remaining) : 0);
                if (take == 0)
                    continue;  // a detector callback needs at least one volume
                json dv = json::array();
                for (std::size_t k = 0; k < take; ++k)
                    dv.push_back(cand[pos++]);
                cb["detectors"] = dv;
                cb["nonzero_edep"] = rp.coin(0.5);
            }
            cbs.push_back(cb);
        }
        cfg["callbacks"] = cbs;
    }
    plan["config"] = cfg;

    // ---- workload ----
    json ops = json::array();
    int nev = 1 + (int)rw.below(3);
    unsigned max_event = 0;
    bool merged = rw.coin(0.25);
    int maxprim = thorough ? 24 : 8;
    auto make_primary = [&](unsigned event) {
        json p;
        p["event"] = event;
        p["particle"] = (unsigned)rw.below(particles.size());
        p["energy"] = e_hi * rw.log_uniform(1e-3, 1.0);
        double pos[3];
        bool ok = false;
        for (int tries = 0; tries < 200 && !ok; ++tries)
        {
            for (int k = 0; k < 3; ++k)
                pos[k] = rw.uniform(gi.lo[k], gi.hi[k]);
            std::uint32_t v = gi.probe->locate(pos);
            ok = v != kNone && vol_mat[v].get<int>() >= 0 && gi.probe->safety(pos) > 1e-4 * L;
        }
        p["ok"] = ok;
        p["pos"] = {pos[0], pos[1], pos[2]};
        double d[3];
        rw.isotropic(d);
        p["dir"] = {d[0], d[1], d[2]};
        p["time"] = rw.coin(0.5) ? 0.0 : rw.uniform(0, 1e-9);
        return p;
    };
    for (int e = 0; e < nev; ++e)
    {
        json op;
        op["op"] = "event";
        unsigned ev = merged ? 0 : (unsigned)rw.below(4);
        op["reseed"] = (std::uint64_t)rw.below(1000);
        json batches = json::array();
        int nb = rw.coin(0.3) ? 2 + (int)rw.below(2) : 1;
        for (int b = 0; b < nb; ++b)
        {
            json batch;
            batch["at"] = b == 0 ? 0 : (int)(1 + rw.below(6));
            json prims = json::array();
            int np = 1 + (int)rw.below(maxprim);
            for (int i = 0; i < np; ++i)
            {
                unsigned pe = merged ? (unsigned)rw.below(3) : ev;
                max_event = std::max(max_event, pe);
                json p = make_primary(pe);
                if (p["ok"].get<bool>())
                    prims.push_back(p);
            }
            if (prims.empty())
                continue;
            batch["primaries"] = prims;
            batches.push_back(batch);
        }
        if (batches.empty())
            continue;
        op["batches"] = batches;
        ops.push_back(op);
    }
    plan["config"]["max_events"] = max_event + 1 + (unsigned)rp.below(3);
    plan["ops"] = ops;
    plan["step_budget"] = 200000;
    (void)rf;
    return plan;
}

//---------------------------------------------------------------------------//
namespace
{
struct ExecOut
{
    History hist;
    bool budget_exhausted{false};
    bool threw{false};
    std::string error;
    std::uint32_t peak_initializers{0};
};

std::vector<PrimRec> prims_from_json(json const& arr)
{
    std::vector<PrimRec> out;
    for (auto const& p : arr)
    {
        PrimRec r;
        r.event = p.at("event");
        r.particle = p.at("particle");
        r.energy = p.at("energy");
        r.time = p.value("time", 0.0);
        for (int k = 0; k < 3; ++k)
        {
            r.pos[k] = p.at("pos")[k];
            r.dir[k] = p.at("dir")[k];
        }
        out.push_back(r);
    }
    return out;
}

std::vector<Primary> to_primaries(std::vector<PrimRec> const& v)
{
    std::vector<Primary> out;
    for (auto const& r : v)
    {
        Primary p;
        p.particle_id = ParticleId{r.particle};
        p.energy = units::MevEnergy{r.energy};
        p.position = {r.pos[0], r.pos[1], r.pos[2]};
        p.direction = {r.dir[0], r.dir[1], r.dir[2]};
        p.time = r.time;
        p.event_id = EventId{r.event};
        out.push_back(p);
    }
    return out;
}

//! Execute the ops of a plan on a fresh problem/state
ExecOut run_ops(json const& plan, json const& cfg, Problem& prob)
{
    ExecOut out;
    StepperInput sinp;
    sinp.params = prob.core;
    sinp.stream_id = StreamId{0};
    sinp.num_track_slots = prob.slots;
    sinp.action_times = cfg.value("action_times", false);
    Stepper<MemSpace::host> stepper(sinp);
    Recorder rec(prob.slots);
    prob.hub->by_stream[0] = &rec;
    long budget = plan.value("step_budget", 200000);
    long steps = 0;
    std::uint32_t prev_end_init = 0;

    auto do_step = [&](std::vector<PrimRec> prims, bool after_reset, bool after_reseed) -> StepperResult {
        std::size_t np = prims.size();
        auto primaries = to_primaries(prims);
        rec.begin_step(std::move(prims), after_reset, after_reseed);
        out.peak_initializers
            = std::max<std::uint32_t>(out.peak_initializers, prev_end_init + np);
        StepperResult res;
        try
        {
            if (np)
                res = stepper(make_span(primaries));
            else
                res = stepper();
        }
        catch (...)
        {
            rec.end_step_error("exception");
            throw;
        }
        rec.end_step_ok(*prob.core,
                        dynamic_cast<CoreState<MemSpace::host> const&>(stepper.state()),
                        res.generated,
                        res.queued,
                        res.active,
                        res.alive);
        prev_end_init = rec.hist.frames.back().end_counters.initializers;
        out.peak_initializers = std::max(out.peak_initializers, prev_end_init);
        ++steps;
        return res;
    };

    bool after_reset = true;
    try
    {
        for (auto const& op : plan.at("ops"))
        {
            std::string kind = op.at("op");
            if (kind == "event")
            {
                bool reseeded = false;
                if (op.contains("reseed"))
                {
                    stepper.reseed(UniqueEventId{op["reseed"].get<std::uint64_t>()});
                    reseeded = true;
                }
                auto const& batches = op.at("batches");
                std::size_t nb = batches.size();
                std::size_t bi = 0;
                long local = 0;
                StepperResult res;
                res.alive = 1;
                while ((res || bi < nb) && steps < budget)
                {
                    std::vector<PrimRec> prims;
                    if (bi < nb
                        && (batches[bi].value("at", 0) <= local || !res))
                    {
                        prims = prims_from_json(batches[bi].at("primaries"));
                        ++bi;
                    }
                    res = do_step(std::move(prims), after_reset, reseeded);
                    after_reset = false;
                    reseeded = false;
                    ++local;
                }
                if (steps >= budget && (res || bi < nb))
                {
                    out.budget_exhausted = true;
                    break;
                }
            }
            else if (kind == "warm_up")
            {
                stepper.warm_up();
            }
            else if (kind == "reset")
            {
                stepper.reset_state();
                after_reset = true;
                prev_end_init = 0;
            }
        }
    }
    catch (std::exception const& e)
    {
        out.threw = true;
        out.error = e.what();
    }
    prob.hub->by_stream[0] = nullptr;
    out.hist = std::move(rec.hist);
    return out;
}
}  // namespace

//---------------------------------------------------------------------------//
RunResult WorldT::execute(json const& plan) const
{
    RunResult rr;
    std::string property = plan.at("property");
    json cfg = plan.at("config");
    try
    {
        ExecOut ex;
        std::unique_ptr<Problem> prob;
        if (cfg.value("capacity_mode", "ample") == "exact")
        {
            // pass 1: measure the peak initializer demand with ample capacity
            {
                Problem p1 = build_problem(plan.at("problem"), cfg);
                ExecOut e1 = run_ops(plan, cfg, p1);
                cfg["capacity"] = std::max<std::uint32_t>(1, e1.peak_initializers);
                rr.count("exact_capacity_runs");
                rr.stats["max_exact_capacity"] = (long)e1.peak_initializers;
            }
        }
        prob = std::make_unique<Problem>(build_problem(plan.at("problem"), cfg));
        ex = run_ops(plan, cfg, *prob);

        OracleOpts oo;
        oo.step_budget = plan.value("step_budget", 200000);
        oo.budget_exhausted = ex.budget_exhausted;
        oo.expect_complete = !ex.threw;
        std::string gpath = plan["problem"]["geometry"]["file"];
        oo.probe = geo_info(gpath).probe.get();
        oo.geo_tol = 1e-5;
        if (plan["problem"]["along"]["kind"] == "field")
        {
            double di = 1e-5;  // FieldDriverOptions default [cm]
            if (plan["problem"]["along"].contains("driver"))
                di = plan["problem"]["along"]["driver"].value("delta_intersection", di);
            double es = 1e-5;  // epsilon_step default
            if (plan["problem"]["along"].contains("driver"))
                es = plan["problem"]["along"]["driver"].value("epsilon_step", es);
            oo.field_disp_tol = 2 * di;
            oo.field_rel_tol = es;
        }
        check_history(ex.hist, *prob, oo, rr);
        history_shape(ex.hist, rr);
        rr.hash = ex.hist.hash();
        if (ex.threw)
        {
            // No fault was injected in this world: stepping must not throw
            for (char const* p : {"C01", "C02", "C05", "C17"})
                rr.violate(p,
                           "unexpected-exception",
                           "unexpected-exception",
                           "stepping threw without an injected fault: " + ex.error);
        }
        // evidence sample
        json s;
        s["geometry"] = gpath.substr(gpath.rfind('/') + 1);
        s["slots"] = cfg["slots"];
        s["track_order"] = cfg["track_order"];
        s["capacity"] = cfg["capacity"];
        s["along"] = plan["problem"]["along"]["kind"];
        s["steps"] = ex.hist.frames.size();
        long np = 0;
        for (auto const& op : plan["ops"])
            for (auto const& b : op["batches"])
                np += b["primaries"].size();
        s["primaries"] = np;
        s["events_ops"] = plan["ops"].size();
        s["callbacks"] = cfg["callbacks"].size();
        rr.sample = s;
        rr.count("along:" + plan["problem"]["along"]["kind"].get<std::string>());
        rr.count("order:" + cfg["track_order"].get<std::string>());
        rr.count(std::string("slots:") + (prob->slots == 1 ? "1" : prob->slots == 2 ? "2" : prob->slots <= 8 ? "3-8" : "9-64"));
    }
    catch (std::exception const& e)
    {
        for (char const* p : {"C01", "C02", "C05", "C17"})
            rr.violate(p,
                       "setup-exception",
                       "setup-exception",
                       std::string("problem construction or stepping threw: ") + e.what());
    }
    return rr;
}

//---------------------------------------------------------------------------//
std::vector<json> WorldT::shrink(json const& plan) const
{
    std::vector<json> out;
    json const& ops = plan.at("ops");
    // drop an op
    if (ops.size() > 1)
    {
        for (std::size_t i = 0; i < ops.size(); ++i)
        {
            json p = plan;
            p["ops"].erase(i);
            out.push_back(p);
        }
    }
    // drop a batch / halve primaries / drop single primaries
    for (std::size_t i = 0; i < ops.size(); ++i)
    {
        if (!ops[i].contains("batches"))
            continue;
        auto const& bs = ops[i]["batches"];
        if (bs.size() > 1)
        {
            for (std::size_t b = 0; b < bs.size(); ++b)
            {
                json p = plan;
                p["ops"][i]["batches"].erase(b);
                out.push_back(p);
            }
        }
        for (std::size_t b = 0; b < bs.size(); ++b)
        {
            auto const& pr = bs[b]["primaries"];
            if (pr.size() > 1)
            {
                json p = plan;
                json half = json::array();
                for (std::size_t k = 0; k < pr.size() / 2; ++k)
                    half.push_back(pr[k]);
                p["ops"][i]["batches"][b]["primaries"] = half;
                out.push_back(p);
                json q = plan;
                json half2 = json::array();
                for (std::size_t k = pr.size() / 2; k < pr.size(); ++k)
                    half2.push_back(pr[k]);
                q["ops"][i]["batches"][b]["primaries"] = half2;
                out.push_back(q);
            }
            if (pr.size() > 1 && pr.size() <= 6)
            {
                for (std::size_t k = 0; k < pr.size(); ++k)
                {
                    json p = plan;
                    p["ops"][i]["batches"][b]["primaries"].erase(k);
                    out.push_back(p);
                }
            }
        }
    }
    // simplify config
    auto set_cfg = [&](char const* key, json val) {
        if (plan["config"].contains(key) && plan["config"][key] != val)
        {
            json p = plan;
            p["config"][key] = val;
            out.push_back(p);
        }
    };
    set_cfg("track_order", "none");
    set_cfg("capacity_mode", "ample");
    set_cfg("status_checker", false);
    set_cfg("action_times", false);
    set_cfg("diagnostics", false);
    if (plan["config"].contains("callbacks") && !plan["config"]["callbacks"].empty()
        && plan["property"] != "C17")
    {
        json p = plan;
        p["config"]["callbacks"] = json::array();
        p["config"].erase("calo");
        out.push_back(p);
    }
    unsigned slots = plan["config"]["slots"];
    for (unsigned s : {1u, 2u, slots / 2})
    {
        if (s >= 1 && s < slots)
        {
            json p = plan;
            p["config"]["slots"] = s;
            out.push_back(p);
        }
    }
    // simplify physics: drop a process if its particle keeps another one
    auto const& procs = plan["problem"]["procs"];
    for (std::size_t i = 0; i < procs.size(); ++i)
    {
        int same = 0;
        for (auto const& q : procs)
            if (q["particle"] == procs[i]["particle"])
                ++same;
        if (same > 1)
        {
            json p = plan;
            p["problem"]["procs"].erase(i);
            out.push_back(p);
        }
    }
    if (plan["problem"]["along"]["kind"] == "field" && plan["property"] != "C08")
    {
        json p = plan;
        p["problem"]["along"]["kind"] = "linear";
        out.push_back(p);
    }
    if (plan["problem"]["along"].value("fluct", false))
    {
        json p = plan;
        p["problem"]["along"]["fluct"] = false;
        out.push_back(p);
    }
    if (plan["problem"]["cut"].value("apply", false))
    {
        json p = plan;
        p["problem"]["cut"]["apply"] = false;
        out.push_back(p);
    }
    return out;
}

//---------------------------------------------------------------------------//
json WorldT::describe(CheckSpec const& spec) const
{
    json d;
    d["level"] = "exploration";
    std::string rule
        = "Each evaluation is one seeded plan: a generated problem (bundled ORANGE geometry, "
          "1-3 materials, gamma/e-/e+ with simulator-owned stub processes over random positive "
          "xs/dEdx/range tables, cuts, physics options, along-step neutral|linear(mean/fluct)|"
          "uniform-field) x configuration (1-64 slots, 8 track orders, exact or ample "
          "initializer capacity, timing, status checker, callbacks) x workload (1-3 event ops, "
          "merged events, primaries arriving mid-flight) run on the real Stepper; the recorded "
          "history is judged by the property's oracle after every step and at the end. A run is "
          "non-trivial if secondaries were born, more than one track ended and it took more than "
          "two steps; distinct = distinct hashes of the per-step (active, alive, queued, deaths, "
          "births) sequence.";
    d["rule"] = rule;
    d["components"] = {
        {"real",
         {"Stepper<host>", "CoreState", "ActionSequence", "ExtendFromPrimaries/Secondaries",
          "InitializeTracks", "PreStep", "DiscreteSelect", "InteractionApplier", "TrackingCut",
          "Boundary", "AlongStepNeutral/GeneralLinear/UniformMsc (no MSC)", "PhysicsParams + grids",
          "CutoffParams", "SortTracksAction", "StatusChecker", "StepCollector", "SimpleCalo",
          "ActionDiagnostic", "StepDiagnostic", "ORANGE navigation", "XorwowRngEngine + reseed"}},
        {"stub", {"StubProcess/StubModel (simulator-owned interaction outcome generator)"}},
        {"not_run", {"real EM models (world I)", "Urban MSC", "device code"}}};
    d["assumptions"] = {
        "physics tables are synthetic (no Geant4 data offline)",
        "MPI and OpenMP are configured off in the verification build",
        "observer actions read state through the library's own track views",
        "CELERITAS_DEBUG off (shipped configuration)"};
    (void)spec;
    return d;
}

std::uint64_t WorldT::default_runs(CheckSpec const& spec) const
{
    return spec.tier == "thorough" ? 60000 : 1200;
}

static std::unique_ptr<World> make_world_t()
{
    return std::make_unique<WorldT>();
}
static RegisterWorld reg_t({"C01", "C02", "C05", "C17"}, &make_world_t);

}  // namespace vsim
