// World T, concurrent streams (C07): k real threads, each constructing and
// driving its own Stepper/CoreState over one shared CoreParams (with step
// collector, calorimeter and diagnostics attached), exactly one runnable at a
// time under the seeded baton scheduler.  Oracle A: per-event histories equal
// the serial single-stream run for any event->stream assignment and any
// interleaving; tallies equal the per-stream histories.  Oracle B (TSan
// flavour): no data race, judged by happens-before while the baton itself is
// invisible to the sanitizer.
#include <cmath>
#include <cstring>
#include <map>
#include <set>
#include <sstream>
#include <thread>

#include "corecel/io/Logger.hh"
#include "corecel/sys/VerifHook.hh"

#include "core/Baton.hh"
#include "core/World.hh"
#include "Oracles.hh"
#include "PlanGen.hh"
#include "Session.hh"

using namespace celeritas;

namespace vsim
{
namespace
{
thread_local int tl_baton_id = -1;

void yield_hook(char const* site)
{
    if (tl_baton_id >= 0)
        vsim_baton_yield(tl_baton_id, site);
}

std::uint64_t event_digest(History const& h,
                           Problem const& prob,
                           std::size_t first_frame,
                           std::size_t last_frame,
                           std::size_t* rows_out)
{
    struct Row
    {
        std::uint32_t event, track, nsteps;
        SlotObs const* pre;
        SlotObs const* post;
    };
    std::vector<Row> rows;
    for (std::size_t fi = first_frame; fi < last_frame && fi < h.frames.size(); ++fi)
    {
        auto const& f = h.frames[fi];
        auto const& pre = f.obs[(int)Point::pre];
        auto const& post = f.obs[(int)Point::post];
        for (std::size_t s = 0; s < pre.size() && s < post.size(); ++s)
            if (pre[s].active())
                rows.push_back({pre[s].event, pre[s].track, pre[s].num_steps, &pre[s], &post[s]});
    }
    std::sort(rows.begin(), rows.end(), [](Row const& a, Row const& b) {
        if (a.event != b.event)
            return a.event < b.event;
        return a.track != b.track ? a.track < b.track : a.nsteps < b.nsteps;
    });
    Hasher hh;
    for (auto const& r : rows)
        for (SlotObs const* s : {r.pre, r.post})
        {
            std::string act = s->post_action < prob.action_labels.size()
                                  ? prob.action_labels[s->post_action]
                                  : "-";
            hh.add(s->status);
            hh.add(s->event);
            hh.add(s->track);
            hh.add(s->parent);
            hh.add(s->num_steps);
            hh.add(s->particle);
            hh.add(s->volume);
            hh.add(s->energy);
            hh.add(s->time);
            hh.add(s->step_length);
            hh.add(s->deposit);
            hh.add(s->pos);
            hh.add(s->dir);
            hh.add_str(act);
            for (auto const& sec : s->secondaries)
            {
                hh.add(sec.particle);
                hh.add(sec.energy);
                hh.add(sec.dir);
            }
        }
    if (rows_out)
        *rows_out = rows.size();
    return hh.value();
}

struct EventRun
{
    int event_index{-1};
    std::uint64_t digest{0};
    std::size_t rows{0};
    long steps{0};
    bool ok{false};
    std::string error;
};

struct StreamOut
{
    std::vector<EventRun> events;
    History hist;
    std::string error;
};

class WorldT7 : public World
{
  public:
    std::string name() const override { return "T7 (transport, concurrent streams)"; }

    json make_plan(CheckSpec const& spec, std::uint64_t index) const override
    {
        Rng root(mix64(spec.seed) ^ mix64(index * 0x9e3779b97f4a7c15ull + 707));
        Rng rp = root.sub("plan7");
        Rng rw = root.sub("workload");
        Rng rs = root.sub("sched");
        bool thorough = spec.tier == "thorough";
        json plan;
        plan["world"] = "T7";
        plan["property"] = spec.property;
        plan["seed"] = spec.seed;
        plan["index"] = index;
        GenCtx ctx = gen_problem_config(spec, root);
        plan["problem"] = ctx.problem;
        json cfg = ctx.config;
        cfg["capacity_mode"] = "ample";
        cfg["capacity"] = 1 << 14;
        cfg["max_events"] = 4;
        cfg["diagnostics"] = rp.coin(0.8);
        unsigned slots = cfg["slots"];
        cfg["slots"] = std::min<unsigned>(slots, 16);
        plan["config"] = cfg;
        int k = 2 + (int)rp.below(thorough ? 7 : 3);
        plan["streams"] = k;
        int nev = k + (int)rw.below(2 * k + 1);
        json events = json::array();
        unsigned me = 0;
        for (int e = 0; e < nev; ++e)
        {
            json op = gen_event_op(ctx, rw, thorough ? 8 : 4, false, false, &me);
            if (op["batches"].empty())
                continue;
            op.erase("kill_at");
            op["reseed"] = (std::uint64_t)(1000 + e);  // unique event id
            events.push_back(op);
        }
        plan["events"] = events;
        static char const* const assigns[] = {"static", "blocks", "dynamic"};
        plan["assign"] = assigns[rs.below(3)];
        plan["sched_seed"] = (std::uint64_t)rs.next();
        double yp[] = {1.0, 0.5, 0.2, 0.05};
        plan["yield_prob"] = yp[rs.below(4)];
        plan["step_budget"] = 60000;
        return plan;
    }

    RunResult execute(json const& plan) const override
    {
        RunResult rr;
        try
        {
            long budget = plan.value("step_budget", 100000);
            json const& events = plan.at("events");
            int nev = events.size();
            int k = plan.at("streams");
            json cfg = plan.at("config");
            if (nev == 0)
                return rr;

            // Exercise the library's logger (its handler is guarded by a mutex)
            auto old_world = world_logger().level();
            auto old_self = self_logger().level();
            world_logger().level(LogLevel::info);
            self_logger().level(LogLevel::info);

            // ---------- serial reference: one stream ----------
            std::vector<std::uint64_t> ref_digest(nev, 0);
            std::vector<std::size_t> ref_rows(nev, 0);
            {
                Problem p0 = build_problem(plan.at("problem"), cfg, 1);
                Session s0(p0, 0, cfg.value("action_times", false));
                for (int e = 0; e < nev; ++e)
                {
                    std::size_t first = s0.history().frames.size();
                    EventOutcome eo = s0.run_event(events[e], budget);
                    if (!eo.completed && eo.budget_exhausted && !eo.threw)
                    {
                        rr.count("skipped_step_budget_exhausted");
                        return rr;
                    }
                    if (!eo.completed)
                    {
                        rr.violate("C07",
                                   "reference-run-failed",
                                   "reference-run-failed",
                                   "serial reference run of event " + std::to_string(e)
                                       + " did not complete: " + eo.error);
                        world_logger().level(old_world);
                        self_logger().level(old_self);
                        return rr;
                    }
                    ref_digest[e] = event_digest(
                        s0.history(), p0, first, s0.history().frames.size(), &ref_rows[e]);
                }
                history_shape(s0.history(), rr);
            }

            // ---------- concurrent run ----------
            Problem pc = build_problem(plan.at("problem"), cfg, k);
            std::vector<StreamOut> outs(k);
            std::string assign = plan.value("assign", "static");
            // static assignments are computed up front (no shared state)
            std::vector<std::vector<int>> fixed(k);
            for (int e = 0; e < nev; ++e)
            {
                if (assign == "static")
                    fixed[e % k].push_back(e);
                else if (assign == "blocks")
                    fixed[std::min(k - 1, e * k / nev)].push_back(e);
            }
            vsim_baton_init(k, plan.value("sched_seed", 1ull), plan.value("yield_prob", 1.0), 1);
            celeritas::verif::g_yield_hook = &yield_hook;
            pc.hub->on_point = [](unsigned, Point) {
                if (tl_baton_id >= 0)
                    vsim_baton_yield(tl_baton_id, "user-action");
            };
            bool action_times = cfg.value("action_times", false);
            std::vector<std::thread> threads;
            for (int i = 0; i < k; ++i)
            {
                threads.emplace_back([&, i] {
                    tl_baton_id = i;
                    vsim_baton_begin(i);
                    StreamOut& out = outs[i];
                    try
                    {
                        // the stepper (state + begin_run) is built inside the
                        // stream's own thread, as celer-sim does lazily
                        Session ses(pc, i, action_times);
                        std::size_t next_fixed = 0;
                        for (;;)
                        {
                            int e = -1;
                            if (assign == "dynamic")
                            {
                                long idx = vsim_baton_fetch_add(0, 1);
                                e = idx < nev ? (int)idx : -1;
                            }
                            else if (next_fixed < fixed[i].size())
                            {
                                e = fixed[i][next_fixed++];
                            }
                            if (e < 0)
                                break;
                            EventRun er;
                            er.event_index = e;
                            std::size_t first = ses.history().frames.size();
                            EventOutcome eo = ses.run_event(events[e], budget);
                            er.ok = eo.completed;
                            er.error = eo.error;
                            er.steps = eo.steps;
                            er.digest = event_digest(ses.history(),
                                                     pc,
                                                     first,
                                                     ses.history().frames.size(),
                                                     &er.rows);
                            out.events.push_back(er);
                            if (!eo.completed)
                                break;
                            vsim_baton_yield(i, "between-events");
                        }
                        out.hist = std::move(ses.history());
                    }
                    catch (std::exception const& ex)
                    {
                        out.error = ex.what();
                    }
                    tl_baton_id = -1;
                    vsim_baton_end(i);
                });
            }
            for (auto& t : threads)
                t.join();
            celeritas::verif::g_yield_hook = nullptr;
            pc.hub->on_point = nullptr;
            world_logger().level(old_world);
            self_logger().level(old_self);

            rr.fault("stream_preempt", vsim_baton_switches());
            rr.count("streams:" + std::to_string(k));
            rr.count("assign:" + assign);

            // ---------- oracle A ----------
            std::set<int> seen;
            for (int i = 0; i < k; ++i)
            {
                if (!outs[i].error.empty())
                {
                    rr.violate("C07",
                               "stream-threw",
                               "stream-threw",
                               "stream " + std::to_string(i) + " threw: " + outs[i].error);
                    continue;
                }
                for (auto const& er : outs[i].events)
                {
                    seen.insert(er.event_index);
                    if (!er.ok)
                    {
                        rr.violate("C07",
                                   "event-failed-under-concurrency",
                                   "event-failed-under-concurrency",
                                   "event " + std::to_string(er.event_index) + " on stream "
                                       + std::to_string(i)
                                       + " did not complete although it does serially: " + er.error);
                        continue;
                    }
                    rr.count("events_compared");
                    if (er.digest != ref_digest[er.event_index])
                    {
                        rr.violate("C07",
                                   "event-differs-from-serial",
                                   "event-differs-from-serial",
                                   "event " + std::to_string(er.event_index) + " run on stream "
                                       + std::to_string(i) + " of " + std::to_string(k) + " ("
                                       + assign + " assignment) differs from the serial run ("
                                       + std::to_string(er.rows) + " vs "
                                       + std::to_string(ref_rows[er.event_index])
                                       + " track-steps)");
                    }
                }
            }
            if ((int)seen.size() != nev && rr.violations.empty())
                rr.violate("C07",
                           "event-not-run",
                           "event-not-run",
                           "only " + std::to_string(seen.size()) + " of " + std::to_string(nev)
                               + " events were transported");
            // per-stream histories must satisfy the single-stream oracles, and
            // the shared tallies must equal what the streams did
            std::vector<History const*> hs;
            for (int i = 0; i < k; ++i)
            {
                hs.push_back(&outs[i].hist);
                RunResult sub;
                OracleOpts oo;
                oo.c05 = false;
                oo.expect_complete = true;
                check_history(outs[i].hist, pc, oo, sub);
                for (auto const& v : sub.violations)
                    rr.violate("C07",
                               "stream-history-invalid:" + v.klass,
                               "stream-history-invalid:" + v.fingerprint,
                               "stream " + std::to_string(i) + ": " + v.property + " oracle: "
                                   + v.message);
            }
            if (rr.violations.empty())
                check_tallies(hs, pc, rr, "C07");

            Hasher hh;
            for (int i = 0; i < k; ++i)
                hh.add(outs[i].hist.hash());
            hh.add(vsim_baton_trace());
            rr.hash = hh.value();
            Hasher sh;
            sh.add(vsim_baton_trace());
            rr.extra_shapes.push_back(sh.value());  // distinct interleavings
            Hasher sh2;
            sh2.add(rr.shape);
            sh2.add(vsim_baton_trace());
            rr.shape = sh2.value();
            rr.nontrivial = vsim_baton_switches() > 2;
            json s;
            s["geometry"] = plan["problem"]["geometry"]["file"];
            s["streams"] = k;
            s["events"] = nev;
            s["assign"] = assign;
            s["yield_prob"] = plan.value("yield_prob", 1.0);
            s["thread_switches"] = vsim_baton_switches();
            s["slots"] = cfg["slots"];
            rr.sample = s;
        }
        catch (std::exception const& e)
        {
            rr.violate("C07",
                       "setup-exception",
                       "setup-exception",
                       std::string("problem construction or stepping threw: ") + e.what());
        }
        return rr;
    }

    std::vector<json> shrink(json const& plan) const override
    {
        std::vector<json> out;
        auto const& ev = plan.at("events");
        if (ev.size() > 1)
            for (std::size_t i = 0; i < ev.size(); ++i)
            {
                json p = plan;
                p["events"].erase(i);
                out.push_back(p);
            }
        int k = plan.at("streams");
        if (k > 2)
        {
            json p = plan;
            p["streams"] = k - 1;
            out.push_back(p);
            json q = plan;
            q["streams"] = 2;
            out.push_back(q);
        }
        for (double yp : {0.05, 0.2, 1.0})
            if (plan.value("yield_prob", 1.0) != yp)
            {
                json p = plan;
                p["yield_prob"] = yp;
                out.push_back(p);
            }
        if (plan.value("assign", "static") != "static")
        {
            json p = plan;
            p["assign"] = "static";
            out.push_back(p);
        }
        for (char const* key : {"diagnostics", "status_checker", "action_times"})
            if (plan["config"].value(key, false))
            {
                json p = plan;
                p["config"][key] = false;
                out.push_back(p);
            }
        return out;
    }

    json describe(CheckSpec const&) const override
    {
        json d;
        d["level"] = "exploration";
        d["rule"]
            = "Each evaluation: a generated problem with step collector / calorimeter / action "
              "and step diagnostics / optional status checker, k = 2..8 streams and k..3k events "
              "with unique event ids. Reference: all events reseeded and run one after another on "
              "one stream. Concurrent run: k real threads, each building its own Stepper inside "
              "the thread over the shared CoreParams; exactly one thread runnable; at every yield "
              "point (before every action in ActionSequence::begin_run/step, in the lazy "
              "initialisation of ActionDiagnostic / StatusChecker / StreamStore, at the "
              "simulator's user actions, between events) the seeded scheduler may hand the baton "
              "to another thread (pre-emption probability 1, 0.5, 0.2 or 0.05 per plan); events "
              "are assigned statically, in blocks or dynamically (next free stream). Oracle A: "
              "per-event per-track histories bitwise equal to the serial run; shared tallies "
              "equal the streams' own histories. Oracle B (this binary is built with "
              "-fsanitize=thread and the baton is invisible to it): any happens-before data race "
              "aborts the run and is reported. distinct = distinct interleaving traces (hash of "
              "the (thread, site) hand-off sequence).";
        d["components"] = {
            {"real",
             {"CoreParams shared by all streams", "Stepper/CoreState per stream",
              "ActionRegistry", "AuxParamsRegistry/AuxStateVec", "StreamStore",
              "StepCollector + StepGatherAction", "SimpleCalo", "ActionDiagnostic",
              "StepDiagnostic", "StatusChecker", "Logger (mutex-protected handler)",
              "reseed_rng", "all of world T"}},
            {"stub", {"baton scheduler (raw futex, unsanitized TU)", "StubProcess/StubModel"}},
            {"not_run", {"celer-sim Transporter/Runner (OpenMP driver)", "device streams"}}};
        d["assumptions"]
            = {"interleaving granularity is the action (yield points), not the instruction; "
               "instruction-level races are caught by TSan's happens-before analysis, not by "
               "manifestation",
               "TSan's bounded shadow history can miss a race; it cannot invent one",
               "OpenMP is configured off: the harness owns all threads"};
        return d;
    }

    std::uint64_t default_runs(CheckSpec const& spec) const override
    {
        return spec.tier == "thorough" ? 4000 : 96;
    }
};

std::unique_ptr<World> make_world_t7()
{
    return std::make_unique<WorldT7>();
}
RegisterWorld reg_t7({"C07"}, &make_world_t7);
}  // namespace
}  // namespace vsim
