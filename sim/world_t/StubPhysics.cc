#include "StubPhysics.hh"

#include <cmath>
#include <stdexcept>

#include "corecel/math/ArrayUtils.hh"
#include "celeritas/em/model/KleinNishinaModel.hh"
#include "celeritas/em/model/MollerBhabhaModel.hh"
#include "celeritas/global/ActionLauncher.hh"
#include "celeritas/global/CoreParams.hh"
#include "celeritas/global/CoreState.hh"
#include "celeritas/global/CoreTrackView.hh"
#include "celeritas/global/TrackExecutor.hh"
#include "celeritas/grid/ValueGridBuilder.hh"
#include "celeritas/phys/Interaction.hh"
#include "celeritas/phys/InteractionApplier.hh"
#include "celeritas/random/distribution/GenerateCanonical.hh"
#include "celeritas/random/distribution/IsotropicDistribution.hh"

using namespace celeritas;

namespace vsim
{
namespace
{
struct StubExecutor
{
    StubInteractParams p;

    Interaction operator()(CoreTrackView const& track)
    {
        auto particle = track.make_particle_view();
        auto rng = track.make_rng_engine();
        double const e_in = particle.energy().value();

        double u_kind = generate_canonical(rng);
        double u_nsec = generate_canonical(rng);
        int nsec = static_cast<int>(u_nsec * (p.kmax + 1));
        if (nsec > p.kmax)
            nsec = p.kmax;
        if (p.species.empty())
            nsec = 0;

        bool absorbed = u_kind < p.p_absorb;
        bool unchanged = !absorbed && nsec == 0 && u_kind < p.p_absorb + p.p_unchanged;
        if (e_in < p.e_floor)
        {
            // Cascade floor: absorb without secondaries (keeps histories finite)
            absorbed = true;
            unchanged = false;
            nsec = 0;
        }
        if (e_in <= 0)
        {
            // Stopped particle forced to interact at rest: it must disappear
            absorbed = true;
            unchanged = false;
        }
        if (unchanged)
        {
            return Interaction::from_unchanged();
        }

        // Allocate first; a null allocation is an explicit failure
        Secondary* sec = nullptr;
        if (nsec > 0)
        {
            auto allocate = track.make_physics_step_view().make_secondary_allocator();
            sec = allocate(nsec);
            if (!sec)
            {
                return Interaction::from_failure();
            }
        }

        bool self_is_positron = (p.positron && p.self == p.positron);
        // Energy available for distribution (q = KE + 2mc^2 for a positron
        // that is destroyed)
        double avail = e_in + ((absorbed && self_is_positron) ? p.two_mc2 : 0.0);

        IsotropicDistribution<real_type> sample_dir;
        Interaction result;
        for (int i = 0; i < nsec; ++i)
        {
            double u_sp = generate_canonical(rng);
            double u_e = generate_canonical(rng);
            double u_soft = generate_canonical(rng);
            ParticleId sp = p.species[std::min<std::size_t>(
                static_cast<std::size_t>(u_sp * p.species.size()), p.species.size() - 1)];
            double cost0 = (p.positron && sp == p.positron) ? p.two_mc2 : 0.0;
            double frac = (u_soft < p.p_soft) ? 1e-6 * u_e : 0.5 * u_e;
            double ke = frac * (avail - cost0);
            if (!(avail - cost0 > 0) || !(ke > 0))
            {
                // Cannot afford this secondary: leave the cell empty (a null
                // secondary, as after a production cut)
                sec[i] = Secondary{};
                continue;
            }
            sec[i].particle_id = sp;
            sec[i].energy = units::MevEnergy{ke};
            sec[i].direction = sample_dir(rng);
            avail -= ke + cost0;
        }
        result.secondaries = {sec, static_cast<std::size_t>(nsec)};

        if (absorbed)
        {
            result.action = Interaction::Action::absorbed;
            result.energy = zero_quantity();
            result.energy_deposition = units::MevEnergy{avail};
        }
        else
        {
            double u_out = generate_canonical(rng);
            double e_out = (0.001 + 0.999 * u_out) * avail;
            result.action = Interaction::Action::scattered;
            result.energy = units::MevEnergy{e_out};
            result.direction = sample_dir(rng);
            result.energy_deposition = units::MevEnergy{avail - e_out};
        }
        return result;
    }
};
}  // namespace

//---------------------------------------------------------------------------//
StubModel::StubModel(ActionId id, StubProcessInput const& inp)
    : id_(id)
    , label_("stub-" + inp.label)
    , particle_(inp.particle)
    , inter_(inp.inter)
{
}

auto StubModel::applicability() const -> SetApplicability
{
    Applicability a;
    a.particle = particle_;
    a.lower = zero_quantity();
    a.upper = units::MevEnergy{1e12};
    return {a};
}

void StubModel::step(CoreParams const& params, CoreStateHost& state) const
{
    auto execute = make_action_track_executor(params.ptr<MemSpace::native>(),
                                              state.ptr(),
                                              this->action_id(),
                                              InteractionApplier{StubExecutor{inter_}});
    return launch_action(*this, params, state, execute);
}

//---------------------------------------------------------------------------//
auto StubProcess::build_models(ActionIdIter start_id) const -> VecModel
{
    if (inp_.real == "klein_nishina")
        return {std::make_shared<celeritas::KleinNishinaModel>(*start_id++, *inp_.particles)};
    if (inp_.real == "moller_bhabha")
        return {std::make_shared<celeritas::MollerBhabhaModel>(*start_id++, *inp_.particles)};
    if (!inp_.real.empty())
        throw std::runtime_error("unknown real model " + inp_.real);
    return {std::make_shared<StubModel>(*start_id++, inp_)};
}

auto StubProcess::step_limits(Applicability applic) const -> StepLimitBuilders
{
    StepLimitBuilders builders;
    auto m = applic.material.get();
    if (!inp_.xs.empty())
    {
        builders[ValueGridType::macro_xs] = std::make_unique<ValueGridLogBuilder>(
            inp_.emin, inp_.emax, inp_.xs.at(m));
    }
    if (!inp_.eloss.empty())
    {
        builders[ValueGridType::energy_loss] = std::make_unique<ValueGridLogBuilder>(
            inp_.emin, inp_.emax, inp_.eloss.at(m));
        builders[ValueGridType::range] = std::make_unique<ValueGridLogBuilder>(
            inp_.emin, inp_.emax, inp_.range.at(m));
    }
    return builders;
}

//---------------------------------------------------------------------------//
std::vector<double>
integrate_range(double emin, double emax, std::vector<double> const& dedx)
{
    std::size_t n = dedx.size();
    std::vector<double> r(n);
    double dlog = (std::log(emax) - std::log(emin)) / (n - 1);
    // Below the table dE/dx ~ sqrt(E)  =>  R(E0) = 2 E0 / L(E0)
    r[0] = 2 * emin / dedx[0];
    double e_prev = emin;
    for (std::size_t i = 1; i < n; ++i)
    {
        double e = std::exp(std::log(emin) + dlog * i);
        if (i + 1 == n)
            e = emax;
        r[i] = r[i - 1] + 0.5 * (e - e_prev) * (1 / dedx[i - 1] + 1 / dedx[i]);
        e_prev = e;
    }
    return r;
}

}  // namespace vsim
