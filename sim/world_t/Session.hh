// A Session owns one stream: Stepper + Recorder on a Problem, and executes
// plan operations (events with batches, aborts, resets, warm-up, kill_active).
#pragma once

#include <memory>

#include "celeritas/global/Stepper.hh"

#include "Problem.hh"
#include "Recorder.hh"

namespace vsim
{
struct EventOutcome
{
    bool completed{false};  //!< queued = alive = 0 reached
    bool budget_exhausted{false};
    bool threw{false};
    bool threw_runtime_error{false};  //!< celeritas::RuntimeError
    bool threw_injected{false};  //!< the simulator's own abort
    std::string error;
    long steps{0};
};

class Session
{
  public:
    Session(Problem& prob, unsigned stream, bool action_times);
    ~Session();

    //! Run one "event" op to completion (or exception / budget)
    EventOutcome run_event(json const& op, long budget);
    void reseed(std::uint64_t id);
    void reset();
    void warm_up();
    void kill_active();
    //! Step until nothing is alive/queued (after kill_active)
    EventOutcome drain(long budget);

    FaultCtl& fault() { return (*prob_.faults)[stream_]; }
    History& history() { return rec_.hist; }
    Recorder& recorder() { return rec_; }
    celeritas::Stepper<celeritas::MemSpace::host>& stepper() { return *stepper_; }
    std::uint32_t peak_initializers() const { return peak_init_; }
    long total_steps() const { return total_steps_; }
    //! Optional callback invoked before every step (slot permutation etc.)
    std::function<void(Session&)> before_step;

  private:
    Problem& prob_;
    unsigned stream_;
    std::unique_ptr<celeritas::Stepper<celeritas::MemSpace::host>> stepper_;
    Recorder rec_;
    bool after_reset_{true};
    bool after_reseed_{false};
    bool after_kill_{false};
    std::uint32_t prev_end_init_{0};
    std::uint32_t peak_init_{0};
    long total_steps_{0};

    celeritas::StepperResult do_step(std::vector<PrimRec> prims);
    template<class F>
    EventOutcome guarded(F&& f);
};
}  // namespace vsim
