#include "Problem.hh"

#include <cmath>
#include <mutex>

#include "corecel/data/AuxParamsRegistry.hh"
#include "corecel/data/CollectionStateStore.hh"
#include "corecel/io/OutputRegistry.hh"
#include "corecel/sys/ActionRegistry.hh"
#include "orange/OrangeData.hh"
#include "orange/OrangeParams.hh"
#include "orange/OrangeTrackView.hh"
#include "celeritas/Quantities.hh"
#include "celeritas/Constants.hh"
#include "celeritas/em/process/EPlusAnnihilationProcess.hh"
#include "celeritas/field/UniformFieldData.hh"
#include "celeritas/geo/GeoMaterialParams.hh"
#include "celeritas/geo/GeoParams.hh"
#include "celeritas/global/CoreState.hh"
#include "celeritas/global/alongstep/AlongStepGeneralLinearAction.hh"
#include "celeritas/global/alongstep/AlongStepNeutralAction.hh"
#include "celeritas/global/alongstep/AlongStepUniformMscAction.hh"
#include "celeritas/mat/MaterialParams.hh"
#include "celeritas/phys/CutoffParams.hh"
#include "celeritas/phys/PDGNumber.hh"
#include "celeritas/phys/ParticleParams.hh"
#include "celeritas/phys/PhysicsParams.hh"
#include "celeritas/random/RngParams.hh"
#include "celeritas/track/SimParams.hh"
#include "celeritas/track/StatusChecker.hh"
#include "celeritas/track/TrackInitParams.hh"
#include "celeritas/user/ActionDiagnostic.hh"
#include "celeritas/user/SimpleCalo.hh"
#include "celeritas/user/StepCollector.hh"
#include "celeritas/user/StepDiagnostic.hh"

#include "StubPhysics.hh"

using namespace celeritas;

namespace vsim
{
//---------------------------------------------------------------------------//
std::shared_ptr<GeoParams const> load_geometry(json const& geo)
{
    static std::mutex mu;
    static std::map<std::string, std::shared_ptr<GeoParams const>> cache;
    std::string path = geo.at("file");
    std::lock_guard<std::mutex> lock(mu);
    auto it = cache.find(path);
    if (it != cache.end())
        return it->second;
    auto g = std::make_shared<GeoParams>(path);
    cache[path] = g;
    return g;
}

//---------------------------------------------------------------------------//
struct GeoProbe::Impl
{
    CollectionStateStore<OrangeStateData, MemSpace::host> state;
};

GeoProbe::GeoProbe(std::shared_ptr<GeoParams const> geo)
    : geo_(std::move(geo)), impl_(new Impl)
{
    impl_->state = CollectionStateStore<OrangeStateData, MemSpace::host>(
        geo_->host_ref(), 1);
}
GeoProbe::~GeoProbe() = default;

std::uint32_t GeoProbe::locate(double const pos[3]) const
{
    OrangeTrackView view(geo_->host_ref(), impl_->state.ref(), TrackSlotId{0});
    GeoTrackInitializer init;
    init.pos = {pos[0], pos[1], pos[2]};
    init.dir = {0, 0, 1};
    view = init;
    if (view.failed() || view.is_outside())
        return kNone;
    return view.volume_id().get();
}

double GeoProbe::safety(double const pos[3]) const
{
    OrangeTrackView view(geo_->host_ref(), impl_->state.ref(), TrackSlotId{0});
    GeoTrackInitializer init;
    init.pos = {pos[0], pos[1], pos[2]};
    init.dir = {0, 0, 1};
    view = init;
    if (view.failed() || view.is_outside())
        return 0;
    return view.find_safety();
}

//---------------------------------------------------------------------------//
/*!
 * Fault-injecting user action (one instance per observation point).
 *
 * - throws a std::runtime_error at a planned (step, point): an "abort"
 * - raises the secondary-stack size cell at user_pre of a planned step so
 *   that only a planned number of free cells remains
 */
class FaultAction final : public CoreStepActionInterface, public ConcreteAction
{
  public:
    FaultAction(ActionId id,
                Point p,
                std::shared_ptr<std::vector<FaultCtl>> ctl,
                std::shared_ptr<RecorderHub> hub)
        : ConcreteAction(id,
                         p == Point::start  ? "vsim-fault-start"
                         : p == Point::pre ? "vsim-fault-pre"
                                           : "vsim-fault-post",
                         "simulator fault injector")
        , point_(p)
        , ctl_(std::move(ctl))
        , hub_(std::move(hub))
    {
    }
    StepActionOrder order() const final
    {
        return point_ == Point::start ? StepActionOrder::user_start
               : point_ == Point::pre ? StepActionOrder::user_pre
                                      : StepActionOrder::user_post;
    }
    void step(CoreParams const&, CoreStateDevice&) const final {}
    void step(CoreParams const&, CoreStateHost& state) const final
    {
        unsigned sid = state.stream_id().get();
        if (sid >= ctl_->size())
            return;
        FaultCtl& c = (*ctl_)[sid];
        Recorder* rec = sid < hub_->by_stream.size() ? hub_->by_stream[sid] : nullptr;
        if (!rec || !rec->cur)
            return;
        long step = rec->cur->step;
        if (point_ == Point::pre && (c.stack_every_step || c.stack_step == step))
        {
            auto& sec = state.ref().physics.secondaries;
            size_type cap = sec.storage.size();
            size_type cur = sec.size[ItemId<size_type>{0}];
            size_type want = cap > static_cast<size_type>(c.stack_free)
                                 ? cap - static_cast<size_type>(c.stack_free)
                                 : 0;
            if (want > cur)
            {
                sec.size[ItemId<size_type>{0}] = want;
                ++c.stack_fired;
            }
        }
        if (c.abort_step == step && c.abort_point == static_cast<int>(point_))
        {
            ++c.aborts_fired;
            throw std::runtime_error("vsim: injected abort");
        }
    }

  private:
    Point point_;
    std::shared_ptr<std::vector<FaultCtl>> ctl_;
    std::shared_ptr<RecorderHub> hub_;
};

//---------------------------------------------------------------------------//
namespace
{
TrackOrder track_order_from_string(std::string const& s)
{
    if (s == "none")
        return TrackOrder::none;
    if (s == "init_charge")
        return TrackOrder::init_charge;
    if (s == "reindex_shuffle")
        return TrackOrder::reindex_shuffle;
    if (s == "reindex_status")
        return TrackOrder::reindex_status;
    if (s == "reindex_particle_type")
        return TrackOrder::reindex_particle_type;
    if (s == "reindex_along_step_action")
        return TrackOrder::reindex_along_step_action;
    if (s == "reindex_step_limit_action")
        return TrackOrder::reindex_step_limit_action;
    if (s == "reindex_both_action")
        return TrackOrder::reindex_both_action;
    throw std::runtime_error("bad track order " + s);
}

StepSelection selection_from_json(json const& j)
{
    StepSelection sel;
    auto pt = [](json const& p) {
        StepPointSelection s;
        s.time = p.value("time", false);
        s.pos = p.value("pos", false);
        s.dir = p.value("dir", false);
        s.volume_id = p.value("volume_id", false);
        s.energy = p.value("energy", false);
        return s;
    };
    if (j.contains("pre"))
        sel.points[StepPoint::pre] = pt(j["pre"]);
    if (j.contains("post"))
        sel.points[StepPoint::post] = pt(j["post"]);
    sel.event_id = j.value("event_id", false);
    sel.parent_id = j.value("parent_id", false);
    sel.track_step_count = j.value("track_step_count", false);
    sel.action_id = j.value("action_id", false);
    sel.step_length = j.value("step_length", false);
    sel.particle = j.value("particle", false);
    sel.energy_deposition = j.value("energy_deposition", false);
    return sel;
}
}  // namespace

//---------------------------------------------------------------------------//
Problem build_problem(json const& pj, json const& cj, unsigned max_streams)
{
    using namespace celeritas::units;
    Problem prob;
    auto geo = load_geometry(pj.at("geometry"));

    // ---- materials ----
    unsigned nmat = pj.at("n_materials");
    MaterialParams::Input minp;
    static int const zs[] = {13, 29, 82, 6, 1, 26, 74, 8};
    static double const amu[] = {27, 63.5, 207.2, 12, 1, 55.8, 183.8, 16};
    for (unsigned i = 0; i < nmat; ++i)
    {
        minp.elements.push_back({AtomicNumber{zs[i % 8]},
                                 AmuMass{amu[i % 8]},
                                 {},
                                 "el" + std::to_string(i)});
        minp.materials.push_back({native_value_from(MolCcDensity{0.05 * (i + 1)}),
                                  293.0,
                                  MatterState::solid,
                                  {{ElementId{i}, 1.0}},
                                  "mat" + std::to_string(i)});
    }
    auto materials = std::make_shared<MaterialParams>(std::move(minp));

    // ---- particles ----
    ParticleParams::Input pinp;
    prob.particle_names = pj.at("particles").get<std::vector<std::string>>();
    double const emass = 0.5109989461;
    for (auto const& name : prob.particle_names)
    {
        using namespace constants;
        if (name == "gamma")
            pinp.push_back({name, pdg::gamma(), zero_quantity(), zero_quantity(), stable_decay_constant});
        else if (name == "electron")
            pinp.push_back({name, pdg::electron(), MevMass{emass}, ElementaryCharge{-1}, stable_decay_constant});
        else if (name == "positron")
            pinp.push_back({name, pdg::positron(), MevMass{emass}, ElementaryCharge{1}, stable_decay_constant});
        else if (name == "mu_minus")
            pinp.push_back({name, pdg::mu_minus(), MevMass{105.6583745}, ElementaryCharge{-1}, stable_decay_constant});
        else
            throw std::runtime_error("unknown particle " + name);
    }
    auto particles = std::make_shared<ParticleParams>(std::move(pinp));
    for (auto pid : range(ParticleId{particles->size()}))
    {
        prob.masses.push_back(particles->get(pid).mass().value());
    }
    if (auto p = particles->find(pdg::positron()))
        prob.positron_id = p.get();

    // ---- geo/material coupling ----
    GeoMaterialParams::Input gminp;
    gminp.geometry = geo;
    gminp.materials = materials;
    for (auto const& v : pj.at("vol_mat"))
    {
        int m = v.get<int>();
        gminp.volume_to_mat.push_back(m < 0 ? MaterialId{} : MaterialId(m));
    }
    auto geomat = std::make_shared<GeoMaterialParams>(std::move(gminp));

    // ---- cutoffs ----
    CutoffParams::Input cinp;
    cinp.materials = materials;
    cinp.particles = particles;
    json const& cut = pj.at("cut");
    cinp.apply_post_interaction = cut.value("apply", false);
    for (auto const& [name, pdgnum] :
         std::vector<std::pair<std::string, PDGNumber>>{{"gamma", pdg::gamma()},
                                                        {"electron", pdg::electron()},
                                                        {"positron", pdg::positron()}})
    {
        if (!cut.contains(name))
            continue;
        CutoffParams::MaterialCutoffs mc;
        for (auto const& e : cut[name])
            mc.push_back({MevEnergy{e.get<double>()}, 0.1});
        cinp.cutoffs.insert({pdgnum, mc});
    }
    auto cutoff = std::make_shared<CutoffParams>(cinp);

    // ---- registries ----
    auto action_reg = std::make_shared<ActionRegistry>();
    auto aux_reg = std::make_shared<AuxParamsRegistry>();
    auto output_reg = std::make_shared<OutputRegistry>();

    // ---- physics ----
    PhysicsParams::Input phinp;
    phinp.particles = particles;
    phinp.materials = materials;
    phinp.action_registry = action_reg.get();
    json const& opt = pj.at("options");
    phinp.options.min_range = opt.value("min_range", phinp.options.min_range);
    phinp.options.max_step_over_range
        = opt.value("max_step_over_range", phinp.options.max_step_over_range);
    phinp.options.fixed_step_limiter = opt.value("fixed_step_limiter", 0.0);
    phinp.options.linear_loss_limit
        = opt.value("linear_loss_limit", phinp.options.linear_loss_limit);
    phinp.options.lowest_electron_energy
        = MevEnergy{opt.value("lowest_electron_energy", 0.001)};
    phinp.options.min_eprime_over_e
        = opt.value("min_eprime_over_e", phinp.options.min_eprime_over_e);
    phinp.options.disable_integral_xs = opt.value("disable_integral_xs", false);
    phinp.options.secondary_stack_factor = cj.value("stack_factor", 3.0);

    auto find_particle = [&](std::string const& name) -> ParticleId {
        for (unsigned i = 0; i < prob.particle_names.size(); ++i)
            if (prob.particle_names[i] == name)
                return ParticleId{i};
        return {};
    };
    for (auto const& pr : pj.at("procs"))
    {
        if (pr.value("real", std::string{}) == "eplus_annihilation")
        {
            // the real process: on-the-fly cross section, real EPlusGGModel
            phinp.processes.push_back(std::make_shared<EPlusAnnihilationProcess>(
                particles, EPlusAnnihilationProcess::Options{}));
            continue;
        }
        StubProcessInput si;
        si.label = pr.at("label");
        si.particle = find_particle(pr.at("particle"));
        si.integral = pr.value("integral", false);
        si.emin = pr.at("emin");
        si.emax = pr.at("emax");
        if (pr.contains("xs") && !pr["xs"].is_null())
            si.xs = pr["xs"].get<std::vector<std::vector<double>>>();
        if (pr.contains("eloss") && !pr["eloss"].is_null())
        {
            si.eloss = pr["eloss"].get<std::vector<std::vector<double>>>();
            for (auto const& row : si.eloss)
                si.range.push_back(integrate_range(si.emin, si.emax, row));
        }
        si.real = pr.value("real", std::string{});
        si.particles = particles;
        if (!si.real.empty())
        {
            phinp.processes.push_back(std::make_shared<StubProcess>(std::move(si)));
            continue;
        }
        json const& in = pr.at("inter");
        si.inter.self = si.particle;
        si.inter.positron = particles->find(pdg::positron());
        si.inter.two_mc2 = 2 * emass;
        si.inter.p_absorb = in.value("p_absorb", 0.3);
        si.inter.p_unchanged = in.value("p_unchanged", 0.05);
        si.inter.p_soft = in.value("p_soft", 0.3);
        si.inter.kmax = in.value("kmax", 2);
        si.inter.e_floor = in.value("e_floor", 0.0);
        for (auto const& s : in.at("species"))
            if (auto id = find_particle(s))
                si.inter.species.push_back(id);
        phinp.processes.push_back(std::make_shared<StubProcess>(std::move(si)));
    }
    auto physics = std::make_shared<PhysicsParams>(std::move(phinp));

    // ---- along step ----
    json const& along = pj.at("along");
    std::string akind = along.value("kind", "neutral");
    if (akind == "neutral")
    {
        auto a = std::make_shared<AlongStepNeutralAction>(action_reg->next_id());
        action_reg->insert(a);
    }
    else if (akind == "linear")
    {
        auto a = AlongStepGeneralLinearAction::from_params(action_reg->next_id(),
                                                           *materials,
                                                           *particles,
                                                           nullptr,
                                                           along.value("fluct", false));
        action_reg->insert(a);
    }
    else if (akind == "field")
    {
        UniformFieldParams fp;
        auto f = along.at("field").get<std::vector<double>>();
        fp.field = {f[0] * units::tesla, f[1] * units::tesla, f[2] * units::tesla};
        if (along.contains("driver"))
        {
            json const& d = along["driver"];
            fp.options.minimum_step = d.value("minimum_step", fp.options.minimum_step);
            fp.options.delta_chord = d.value("delta_chord", fp.options.delta_chord);
            fp.options.delta_intersection
                = d.value("delta_intersection", fp.options.delta_intersection);
            fp.options.epsilon_step = d.value("epsilon_step", fp.options.epsilon_step);
            fp.options.max_nsteps = d.value("max_nsteps", (int)fp.options.max_nsteps);
            fp.options.max_substeps = d.value("max_substeps", (int)fp.options.max_substeps);
        }
        auto a = AlongStepUniformMscAction::from_params(action_reg->next_id(),
                                                        *materials,
                                                        *particles,
                                                        fp,
                                                        nullptr,
                                                        along.value("fluct", false));
        action_reg->insert(a);
    }
    else
    {
        throw std::runtime_error("bad along kind");
    }

    // ---- sim / init / rng ----
    SimParams::Input sinp;
    sinp.particles = particles;
    if (along.contains("looping"))
    {
        for (auto pid : range(ParticleId{particles->size()}))
        {
            LoopingThreshold lt;
            lt.max_subthreshold_steps = along["looping"].value("max_sub", 10);
            lt.max_steps = along["looping"].value("max_steps", 100);
            lt.threshold_energy = MevEnergy{along["looping"].value("energy", 250.0)};
            sinp.looping.insert({particles->id_to_pdg(pid), lt});
        }
    }
    auto sim = std::make_shared<SimParams>(sinp);

    TrackInitParams::Input tinp;
    tinp.capacity = cj.at("capacity");
    tinp.max_events = cj.at("max_events");
    tinp.track_order = track_order_from_string(cj.value("track_order", "none"));
    auto init = std::make_shared<TrackInitParams>(tinp);

    auto rng = std::make_shared<RngParams>(cj.value("rng_seed", 12345u));

    // ---- observers and fault actions (before CoreParams so that ids are low
    //      and they precede the step collector at the same order) ----
    prob.hub = std::make_shared<RecorderHub>();
    prob.hub->by_stream.assign(max_streams, nullptr);
    prob.faults = std::make_shared<std::vector<FaultCtl>>(max_streams);

    CoreParams::Input inp;
    inp.geometry = geo;
    inp.material = materials;
    inp.geomaterial = geomat;
    inp.particle = particles;
    inp.cutoff = cutoff;
    inp.physics = physics;
    inp.rng = rng;
    inp.sim = sim;
    inp.init = init;
    inp.action_reg = action_reg;
    inp.output_reg = output_reg;
    inp.aux_reg = aux_reg;
    inp.max_streams = max_streams;

    for (Point p : {Point::start, Point::pre, Point::post})
    {
        auto a = std::make_shared<ObserverAction>(action_reg->next_id(), p, prob.hub);
        action_reg->insert(a);
    }
    for (Point p : {Point::start, Point::pre, Point::post})
    {
        auto a = std::make_shared<FaultAction>(
            action_reg->next_id(), p, prob.faults, prob.hub);
        action_reg->insert(a);
    }

    prob.status_checker = cj.value("status_checker", false);
    if (prob.status_checker)
    {
        auto sc = std::make_shared<StatusChecker>(action_reg->next_id(), aux_reg->next_id());
        action_reg->insert(sc);
        aux_reg->insert(sc);
    }

    auto core = std::make_shared<CoreParams>(std::move(inp));
    prob.core = core;

    // ---- user scoring ----
    StepCollector::VecInterface cbs;
    if (cj.contains("callbacks"))
    {
        std::size_t idx = 0;
        for (auto const& cb : cj["callbacks"])
        {
            CallbackSpec spec;
            spec.selection = selection_from_json(cb.at("selection"));
            if (cb.contains("detectors"))
                spec.detector_volumes = cb["detectors"].get<std::vector<std::uint32_t>>();
            spec.nonzero_edep = cb.value("nonzero_edep", false);
            prob.callbacks.push_back(spec);
            cbs.push_back(std::make_shared<RecordingCallback>(idx++, spec, prob.hub));
        }
    }
    if (cj.contains("calo") && !cj["calo"].is_null())
    {
        prob.calo_volumes = cj["calo"].get<std::vector<std::uint32_t>>();
        std::vector<Label> labels;
        for (auto v : prob.calo_volumes)
            labels.push_back(geo->volumes().at(VolumeId{v}));
        prob.calo = std::make_shared<SimpleCalo>(std::move(labels), *geo, max_streams);
        cbs.push_back(prob.calo);
    }
    if (!cbs.empty())
    {
        StepCollector::make_and_insert(*core, std::move(cbs));
    }
    if (cj.value("diagnostics", false))
    {
        prob.action_diag = ActionDiagnostic::make_and_insert(*core);
        prob.step_diag = StepDiagnostic::make_and_insert(*core, 16);
    }

    // ---- action label tables ----
    for (auto aid : range(ActionId{action_reg->num_actions()}))
    {
        std::string lab{action_reg->id_to_label(aid)};
        prob.action_ids[lab] = aid.get();
        prob.action_labels.push_back(lab);
    }
    prob.is_model_action.assign(prob.action_labels.size(), false);
    for (auto mid : range(ModelId{physics->num_models()}))
    {
        auto aid = physics->model(mid)->action_id();
        if (aid && aid.get() < prob.is_model_action.size())
            prob.is_model_action[aid.get()] = true;
    }
    prob.slots = cj.at("slots");
    return prob;
}

}  // namespace vsim
