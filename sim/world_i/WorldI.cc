// World I, the interaction bench (C04): clients call the real interactors
// through their public headers.  The simulator owns the three things an
// interactor meets from outside: the random stream (a counting engine that can
// inject the legal extreme outputs of a uniform bit generator at seeded
// positions and cuts a run off after a draw budget), the secondary storage (a
// real StackAllocator whose free space is set per call: the allocation fault),
// and the inputs (model, particle, energy over the whole applicability range
// including its end points, direction, element/material, production cut).
#include <cmath>
#include <cstring>
#include <iostream>
#include <memory>
#include <sstream>

#include "corecel/data/CollectionStateStore.hh"
#include "corecel/data/StackAllocator.hh"
#include "corecel/math/ArrayUtils.hh"
#include "celeritas/Constants.hh"
#include "celeritas/Quantities.hh"
#include "celeritas/em/data/AtomicRelaxationData.hh"
#include "celeritas/em/distribution/BetheBlochEnergyDistribution.hh"
#include "celeritas/em/distribution/BraggICRU73QOEnergyDistribution.hh"
#include "celeritas/em/distribution/MuBBEnergyDistribution.hh"
#include "celeritas/em/interactor/AtomicRelaxationHelper.hh"
#include "celeritas/em/interactor/BetheHeitlerInteractor.hh"
#include "celeritas/em/interactor/CombinedBremInteractor.hh"
#include "celeritas/em/interactor/EPlusGGInteractor.hh"
#include "celeritas/em/interactor/KleinNishinaInteractor.hh"
#include "celeritas/em/interactor/LivermorePEInteractor.hh"
#include "celeritas/em/interactor/MollerBhabhaInteractor.hh"
#include "celeritas/em/interactor/MuBremsstrahlungInteractor.hh"
#include "celeritas/em/interactor/MuHadIonizationInteractor.hh"
#include "celeritas/em/interactor/RayleighInteractor.hh"
#include "celeritas/em/interactor/RelativisticBremInteractor.hh"
#include "celeritas/em/interactor/SeltzerBergerInteractor.hh"
#include "celeritas/em/model/CombinedBremModel.hh"
#include "celeritas/em/model/LivermorePEModel.hh"
#include "celeritas/em/model/RayleighModel.hh"
#include "celeritas/em/model/RelativisticBremModel.hh"
#include "celeritas/em/model/SeltzerBergerModel.hh"
#include "celeritas/em/params/AtomicRelaxationParams.hh"
#include "celeritas/io/AtomicRelaxationReader.hh"
#include "celeritas/io/ImportProcess.hh"
#include "celeritas/io/LivermorePEReader.hh"
#include "celeritas/io/SeltzerBergerReader.hh"
#include "celeritas/mat/MaterialParams.hh"
#include "celeritas/mat/MaterialTrackView.hh"
#include "celeritas/phys/CutoffParams.hh"
#include "celeritas/phys/ImportedProcessAdapter.hh"
#include "celeritas/phys/Interaction.hh"
#include "celeritas/phys/PDGNumber.hh"
#include "celeritas/phys/ParticleParams.hh"
#include "celeritas/phys/ParticleTrackView.hh"
#include "celeritas/phys/Secondary.hh"

#include "core/World.hh"

using namespace celeritas;

namespace vsim
{
namespace
{
//---------------------------------------------------------------------------//
// The random stream
struct DrawLimit
{
};

class SimEngine
{
  public:
    using result_type = std::uint32_t;
    static constexpr result_type min() { return 0; }
    static constexpr result_type max() { return 0xffffffffu; }

    SimEngine(std::uint64_t seed, double p_extreme, std::uint64_t budget)
        : s_(seed), fault_(mix64(seed ^ 0x5151)), p_(p_extreme), budget_(budget)
    {
    }
    result_type operator()()
    {
        if (++count_ > budget_)
            throw DrawLimit{};
        std::uint32_t v = static_cast<std::uint32_t>(next(s_) >> 32);
        if (p_ > 0)
        {
            // extreme but legal outputs at seeded positions: a whole
            // generate_canonical (two draws) is forced to 0 or to 1 - 2^-53
            if (pending_)
            {
                pending_ = false;
                v = forced_;
            }
            else if ((count_ & 1u) && (next(fault_) >> 11) * 0x1.0p-53 < p_)
            {
                forced_ = (next(fault_) & 1u) ? 0xffffffffu : 0u;
                pending_ = true;
                v = forced_;
                ++n_extreme_;
            }
        }
        return v;
    }
    std::uint64_t count() const { return count_; }
    std::uint64_t extremes() const { return n_extreme_; }

  private:
    static std::uint64_t next(std::uint64_t& s)
    {
        s += 0x9e3779b97f4a7c15ull;
        std::uint64_t z = s;
        z = (z ^ (z >> 30)) * 0xbf58476d1ce4e5b9ull;
        z = (z ^ (z >> 27)) * 0x94d049bb133111ebull;
        return z ^ (z >> 31);
    }
    std::uint64_t s_, fault_;
    double p_;
    std::uint64_t budget_;
    std::uint64_t count_{0}, n_extreme_{0};
    bool pending_{false};
    std::uint32_t forced_{0};
};

//---------------------------------------------------------------------------//
// Shared, immutable problem data (built once per process)
template<Ownership W, MemSpace M>
using SecondaryStackData = StackAllocatorData<Secondary, W, M>;

struct MatSet
{
    std::shared_ptr<MaterialParams const> materials;
    std::vector<std::string> names;
};

ImportProcess make_import_process(MaterialParams const& mats,
                                  PDGNumber particle,
                                  PDGNumber secondary,
                                  ImportProcessClass ipc,
                                  std::vector<ImportModelClass> models)
{
    ImportProcess result;
    result.particle_pdg = particle.get();
    result.secondary_pdg = secondary ? secondary.get() : 0;
    result.process_type = ImportProcessType::electromagnetic;
    result.process_class = ipc;
    for (auto& mcls : models)
    {
        ImportModel m;
        m.model_class = mcls;
        m.materials.resize(mats.num_materials());
        for (ImportModelMaterial& imm : m.materials)
            imm.energy = {0, 1e12};
        result.models.push_back(std::move(m));
    }
    return result;
}

struct Bench
{
    std::shared_ptr<ParticleParams const> particles;
    ParticleId gamma, electron, positron, mu_minus, mu_plus;
    double me{0};  // electron mass [MeV]

    MatSet general;  // O, Al, Cu, W, Pb, PbWO4-like mixture, water-like mixture
    MatSet cu;  // Seltzer-Berger tables exist for Z = 29 only
    MatSet k;  // Livermore / EADL data exist for Z = 19 only

    std::shared_ptr<RayleighModel> rayleigh;
    std::shared_ptr<RelativisticBremModel> relbrem[2];  // [lpm]
    std::shared_ptr<SeltzerBergerModel> sb;
    std::shared_ptr<CombinedBremModel> combined[2];
    std::shared_ptr<LivermorePEModel> livermore;

    static Bench const& get()
    {
        static Bench b = make();
        return b;
    }

    static Bench make()
    {
        using namespace constants;
        using namespace units;
        Bench b;
        constexpr auto zero = zero_quantity();
        ParticleParams::Input pi;
        pi.push_back({"gamma", pdg::gamma(), zero, zero, stable_decay_constant});
        pi.push_back({"electron", pdg::electron(), MevMass{0.5109989461}, ElementaryCharge{-1},
                      stable_decay_constant});
        pi.push_back({"positron", pdg::positron(), MevMass{0.5109989461}, ElementaryCharge{1},
                      stable_decay_constant});
        pi.push_back({"mu_minus", pdg::mu_minus(), MevMass{105.6583745}, ElementaryCharge{-1},
                      1 / 2.1969811e-6});
        pi.push_back({"mu_plus", pdg::mu_plus(), MevMass{105.6583745}, ElementaryCharge{1},
                      1 / 2.1969811e-6});
        b.particles = std::make_shared<ParticleParams>(std::move(pi));
        b.gamma = b.particles->find(pdg::gamma());
        b.electron = b.particles->find(pdg::electron());
        b.positron = b.particles->find(pdg::positron());
        b.mu_minus = b.particles->find(pdg::mu_minus());
        b.mu_plus = b.particles->find(pdg::mu_plus());
        b.me = 0.5109989461;

        {
            MaterialParams::Input mi;
            mi.elements = {{AtomicNumber{1}, AmuMass{1.008}, {}, "H"},
                           {AtomicNumber{8}, AmuMass{15.999}, {}, "O"},
                           {AtomicNumber{13}, AmuMass{26.9815385}, {}, "Al"},
                           {AtomicNumber{29}, AmuMass{63.546}, {}, "Cu"},
                           {AtomicNumber{74}, AmuMass{183.84}, {}, "W"},
                           {AtomicNumber{82}, AmuMass{207.2}, {}, "Pb"}};
            auto solid = MatterState::solid;
            mi.materials = {
                {native_value_from(MolCcDensity{0.1}), 293.0, MatterState::liquid,
                 {{ElementId{0}, 2.0 / 3}, {ElementId{1}, 1.0 / 3}}, "H2O"},
                {native_value_from(MolCcDensity{0.1}), 293.0, solid, {{ElementId{2}, 1.0}}, "Al"},
                {native_value_from(MolCcDensity{0.141}), 293.0, solid, {{ElementId{3}, 1.0}}, "Cu"},
                {native_value_from(MolCcDensity{0.05477}), 293.0, solid, {{ElementId{5}, 1.0}}, "Pb"},
                {native_value_from(MolCcDensity{1.0}), 293.0, solid,
                 {{ElementId{1}, 0.5}, {ElementId{4}, 0.3}, {ElementId{5}, 0.2}}, "PbWO"},
                {native_value_from(MolCcDensity{1e-5}), 100.0, MatterState::gas,
                 {{ElementId{0}, 1.0}}, "Hgas"},
            };
            for (auto const& m : mi.materials)
                b.general.names.push_back(m.label.name);
            b.general.materials = std::make_shared<MaterialParams>(std::move(mi));
        }
        {
            MaterialParams::Input mi;
            mi.elements = {{AtomicNumber{29}, AmuMass{63.546}, {}, "Cu"}};
            mi.materials = {{native_value_from(MolCcDensity{0.141}), 293.0, MatterState::solid,
                             {{ElementId{0}, 1.0}}, "Cu"},
                            {native_value_from(MolCcDensity{1e-4}), 293.0, MatterState::gas,
                             {{ElementId{0}, 1.0}}, "Cugas"}};
            b.cu.names = {"Cu", "Cugas"};
            b.cu.materials = std::make_shared<MaterialParams>(std::move(mi));
        }
        {
            MaterialParams::Input mi;
            mi.elements = {{AtomicNumber{19}, AmuMass{39.0983}, {}, "K"}};
            mi.materials = {{native_value_from(MolCcDensity{1e-5}), 293.0, MatterState::solid,
                             {{ElementId{0}, 1.0}}, "K"}};
            b.k.names = {"K"};
            b.k.materials = std::make_shared<MaterialParams>(std::move(mi));
        }
        std::string data_path = std::string(VERIF_REPO_DIR) + "/test/celeritas/data/";
        {
            auto imp = std::make_shared<ImportedProcesses>(std::vector<ImportProcess>{
                make_import_process(*b.general.materials, pdg::gamma(), {},
                                    ImportProcessClass::rayleigh,
                                    {ImportModelClass::livermore_rayleigh})});
            b.rayleigh = std::make_shared<RayleighModel>(ActionId{0}, *b.particles,
                                                         *b.general.materials, imp);
        }
        {
            ImportProcess ipe = make_import_process(
                *b.general.materials, pdg::electron(), pdg::gamma(), ImportProcessClass::e_brems,
                {ImportModelClass::e_brems_sb, ImportModelClass::e_brems_lpm});
            ImportProcess ipp = ipe;
            ipp.particle_pdg = pdg::positron().get();
            auto imp = std::make_shared<ImportedProcesses>(std::vector<ImportProcess>{ipe, ipp});
            for (int lpm = 0; lpm < 2; ++lpm)
                b.relbrem[lpm] = std::make_shared<RelativisticBremModel>(
                    ActionId{0}, *b.particles, *b.general.materials, imp, lpm == 1);
        }
        {
            ImportProcess ipe = make_import_process(
                *b.cu.materials, pdg::electron(), pdg::gamma(), ImportProcessClass::e_brems,
                {ImportModelClass::e_brems_sb, ImportModelClass::e_brems_lpm});
            ImportProcess ipp = ipe;
            ipp.particle_pdg = pdg::positron().get();
            auto imp = std::make_shared<ImportedProcesses>(std::vector<ImportProcess>{ipe, ipp});
            SeltzerBergerReader read_sb(data_path.c_str());
            b.sb = std::make_shared<SeltzerBergerModel>(ActionId{0}, *b.particles, *b.cu.materials,
                                                        imp, read_sb);
            for (int lpm = 0; lpm < 2; ++lpm)
                b.combined[lpm] = std::make_shared<CombinedBremModel>(
                    ActionId{0}, *b.particles, *b.cu.materials, imp, read_sb, lpm == 1);
        }
        {
            LivermorePEReader read_pe(data_path.c_str());
            b.livermore = std::make_shared<LivermorePEModel>(ActionId{0}, *b.particles,
                                                             *b.k.materials, read_pe);
        }
        return b;
    }
};

enum ModelKind
{
    kKleinNishina,
    kEPlusGG,
    kMollerBhabha,
    kBetheHeitler,
    kMuBrems,
    kBetheBloch,
    kMuBetheBloch,
    kBraggICRU73QO,
    kRayleigh,
    kRelBrem,
    kSeltzerBerger,
    kCombinedBrem,
    kLivermorePE,
    kNumModels
};
char const* const kModelNames[] = {"klein_nishina", "eplus_gg", "moller_bhabha", "bethe_heitler",
                                   "mu_brems", "bethe_bloch", "mu_bethe_bloch", "bragg_icru73qo",
                                   "rayleigh", "relativistic_brem", "seltzer_berger",
                                   "combined_brem", "livermore_pe"};

std::string fmt3(Real3 const& v)
{
    std::ostringstream os;
    os.precision(17);
    os << "(" << v[0] << "," << v[1] << "," << v[2] << ")";
    return os.str();
}

class WorldI : public World
{
  public:
    std::string name() const override { return "I (interaction bench)"; }

    json make_plan(CheckSpec const& spec, std::uint64_t index) const override
    {
        Rng r(mix64(spec.seed) ^ mix64(index * 0x9e3779b97f4a7c15ull + 404));
        bool thorough = spec.tier == "thorough";
        json plan;
        plan["world"] = "I";
        plan["property"] = spec.property;
        plan["seed"] = spec.seed;
        plan["index"] = index;
        int model = (int)r.below(kNumModels);
        plan["model"] = kModelNames[model];
        plan["lpm"] = r.coin(0.5);
        plan["auger"] = r.coin(0.5);
        plan["relaxation"] = r.coin(0.6);
        // production cut for the model's secondary [MeV]
        plan["cut"] = r.coin(0.15) ? 0.0 : r.log_uniform(1e-4, 10.0);
        plan["material"] = (int)r.below(16);
        plan["p_extreme"] = r.coin(0.5) ? 0.0 : r.log_uniform(1e-3, 0.2);
        int ncalls = thorough ? 400 : 150;
        json calls = json::array();
        for (int i = 0; i < ncalls; ++i)
        {
            json c;
            // u[0]: energy selector, u[1]: position in the interval, u[2]: particle
            // sign selector, u[3]: element selector, u[4]: free-cell selector
            c["u"] = {r.uniform(), r.uniform(), r.uniform(), r.uniform(), r.uniform()};
            c["seed"] = (std::uint64_t)r.next();
            calls.push_back(c);
        }
        plan["calls"] = calls;
        return plan;
    }

    RunResult execute(json const& plan) const override
    {
        RunResult rr;
        try
        {
            run(plan, rr);
        }
        catch (std::exception const& e)
        {
            rr.violate("C04", "setup-exception", "setup-exception",
                       std::string("construction or sampling threw: ") + e.what());
        }
        return rr;
    }

    void run(json const& plan, RunResult& rr) const
    {
        using units::MevEnergy;
        Bench const& b = Bench::get();
        std::string mname = plan.at("model");
        int model = -1;
        for (int i = 0; i < kNumModels; ++i)
            if (mname == kModelNames[i])
                model = i;
        if (model < 0)
            throw std::runtime_error("unknown model " + mname);
        bool lpm = plan.value("lpm", false);
        double cut = plan.value("cut", 0.001);
        // a zero cut is meaningful only for models that do not sample from it
        // (the ionisation and bremsstrahlung spectra diverge at zero)
        if (cut <= 0
            && !(model == kKleinNishina || model == kEPlusGG || model == kBetheHeitler
                 || model == kRayleigh || model == kLivermorePE))
            cut = 1e-3;
        double p_extreme = plan.value("p_extreme", 0.0);

        MatSet const& ms = (model == kSeltzerBerger || model == kCombinedBrem)
                               ? b.cu
                               : (model == kLivermorePE ? b.k : b.general);
        MaterialParams const& mats = *ms.materials;
        MaterialId mat_id{(unsigned)(plan.value("material", 0) % mats.num_materials())};

        // Cutoffs: the model's secondary gets the plan's cut in every material
        auto mats_sp = ms.materials;
        CutoffParams::Input ci;
        ci.materials = mats_sp;
        ci.particles = b.particles;
        {
            CutoffParams::MaterialCutoffs mc;
            for (unsigned i = 0; i < mats.num_materials(); ++i)
                mc.push_back({MevEnergy{cut}, 0.07});
            ci.cutoffs.insert({pdg::electron(), mc});
            ci.cutoffs.insert({pdg::gamma(), mc});
            ci.cutoffs.insert({pdg::positron(), mc});
        }
        auto cutoffs_sp = std::make_shared<CutoffParams>(ci);
        CutoffView cutoffs = cutoffs_sp->get(mat_id);

        // Atomic relaxation (Livermore only)
        std::shared_ptr<AtomicRelaxationParams> relax;
        HostVal<AtomicRelaxStateData> relax_states;
        HostRef<AtomicRelaxStateData> relax_states_ref;
        HostCRef<AtomicRelaxParamsData> relax_params_ref;
        bool use_relax = model == kLivermorePE && plan.value("relaxation", false);
        if (use_relax)
        {
            std::string data_path = std::string(VERIF_REPO_DIR) + "/test/celeritas/data/";
            AtomicRelaxationReader read_tr(data_path.c_str(), data_path.c_str());
            AtomicRelaxationParams::Input ri;
            ri.cutoffs = cutoffs_sp;
            ri.materials = mats_sp;
            ri.particles = b.particles;
            ri.load_data = read_tr;
            ri.is_auger_enabled = plan.value("auger", false);
            relax = std::make_shared<AtomicRelaxationParams>(ri);
            relax_params_ref = relax->host_ref();
            resize(&relax_states, relax_params_ref, 1);
            relax_states_ref = relax_states;
        }

        CollectionStateStore<ParticleStateData, MemSpace::host> ps(b.particles->host_ref(), 1);
        CollectionStateStore<MaterialStateData, MemSpace::host> mstate(mats.host_ref(), 1);
        ParticleTrackView particle(b.particles->host_ref(), ps.ref(), TrackSlotId{0});
        MaterialTrackView mtrack(mats.host_ref(), mstate.ref(), TrackSlotId{0});
        {
            MaterialTrackView::Initializer_t mi;
            mi.material_id = mat_id;
            mtrack = mi;
        }
        MaterialView material = mtrack.make_material_view();

        constexpr unsigned capacity = 32;
        CollectionStateStore<SecondaryStackData, MemSpace::host> stack(capacity);
        StackAllocator<Secondary> allocate(stack.ref());

        Hasher hh;
        long ncalls = 0, nfail = 0, nsec = 0, nunchanged = 0, ncutsec = 0;
        std::uint64_t max_draws = 0, total_draws = 0, total_extreme = 0;
        std::set<int> outcomes;
        std::set<int> decades;
        double me = b.me;

        for (auto const& call : plan.at("calls"))
        {
            auto const& u = call.at("u");
            std::uint64_t seed = call.at("seed").get<std::uint64_t>();
            Rng r(seed);
            // ---- incident particle and energy inside the applicability range ----
            ParticleId pid;
            double elo = 0, ehi = 0;  // closed interval
            bool sign = u[2].get<double>() < 0.5;
            double sb_limit = value_as<MevEnergy>(detail::seltzer_berger_upper_limit());
            switch (model)
            {
                case kKleinNishina: pid = b.gamma; elo = 1e-4; ehi = 1e5; break;
                case kEPlusGG: pid = b.positron; elo = 0; ehi = 1e5; break;
                case kMollerBhabha:
                    pid = sign ? b.electron : b.positron;
                    elo = std::max(cut, 1e-6) * (sign ? 2 : 1) * (1 + 1e-9);
                    ehi = 1e8;
                    break;
                case kBetheHeitler: pid = b.gamma; elo = 2 * me; ehi = 8e4; break;
                case kMuBrems:
                    pid = sign ? b.mu_minus : b.mu_plus;
                    elo = std::max(cut, 1e-6) * (1 + 1e-9);
                    ehi = 1e8;
                    break;
                case kBetheBloch:
                    pid = sign ? b.mu_minus : b.mu_plus;
                    elo = 0.2;
                    ehi = 1e3;
                    break;
                case kMuBetheBloch:
                    pid = sign ? b.mu_minus : b.mu_plus;
                    elo = 0.2;
                    ehi = 1e8;
                    break;
                case kBraggICRU73QO:
                    pid = sign ? b.mu_minus : b.mu_plus;
                    elo = 1e-4;
                    ehi = 0.2;
                    break;
                case kRayleigh: pid = b.gamma; elo = 1e-4; ehi = 1e5; break;
                case kRelBrem:
                    pid = sign ? b.electron : b.positron;
                    elo = sb_limit;
                    ehi = 1e8;
                    break;
                case kSeltzerBerger:
                    pid = sign ? b.electron : b.positron;
                    elo = std::max(cut, 1e-6) * (1 + 1e-9);
                    ehi = sb_limit * (1 - 1e-12);
                    break;
                case kCombinedBrem:
                    pid = sign ? b.electron : b.positron;
                    elo = std::max(cut, 1e-6) * (1 + 1e-9);
                    ehi = 1e8;
                    break;
                case kLivermorePE: pid = b.gamma; elo = 1e-4; ehi = 1e2; break;
            }
            double gcut = std::max(cut, 1e-6);  // models requiring a positive cut
            if ((model == kSeltzerBerger || model == kCombinedBrem || model == kMuBrems) && cut <= 0)
                cutoffs_positive_required(rr);
            if (!(ehi > elo))
            {
                rr.count("skipped_empty_energy_interval");
                continue;
            }
            double e;
            {
                double v = u[0].get<double>();
                double t = u[1].get<double>();
                if (v < 0.06)
                    e = elo;  // lower end point
                else if (v < 0.12)
                    e = ehi;  // upper end point
                else if (v < 0.2)
                    e = elo > 0 ? elo * (1 + t * 1e-6) : t * 1e-9;  // just inside
                else if (v < 0.28)
                    e = ehi * (1 - t * 1e-6);
                else
                {
                    double lo = elo > 0 ? elo : 1e-9;
                    e = std::exp(std::log(lo) + t * (std::log(ehi) - std::log(lo)));
                }
            }
            (void)gcut;
            if (call.contains("e"))
                e = call["e"].get<double>();  // hand-written plans
            Real3 dir;
            {
                double d[3];
                r.isotropic(d);
                if (r.coin(0.05))
                {
                    // within the near-pole branch of rotate()
                    double th = r.log_uniform(1e-9, 0.02), ph = r.uniform(0, 2 * constants::pi);
                    double sg = r.coin(0.5) ? 1 : -1;
                    d[0] = std::sin(th) * std::cos(ph);
                    d[1] = std::sin(th) * std::sin(ph);
                    d[2] = sg * std::cos(th);
                }
                else if (r.coin(0.1))
                {
                    // axis aligned (rotation helpers special-case the poles)
                    int ax = (int)r.below(3);
                    double sg = r.coin(0.5) ? 1 : -1;
                    d[0] = d[1] = d[2] = 0;
                    d[ax] = sg;
                }
                dir = {d[0], d[1], d[2]};
            }
            {
                ParticleTrackView::Initializer_t pi;
                pi.particle_id = pid;
                pi.energy = MevEnergy{e};
                particle = pi;
            }
            // muon ionisation: the model's own threshold (the distribution's
            // lower limit) and the interactor's precondition E > that limit
            double mu_threshold = -1;
            if (model == kBetheBloch)
                mu_threshold = value_as<MevEnergy>(
                    BetheBlochEnergyDistribution(particle, cutoffs.energy(b.electron), units::MevMass{me})
                        .min_secondary_energy());
            else if (model == kMuBetheBloch)
                mu_threshold = value_as<MevEnergy>(
                    MuBBEnergyDistribution(particle, cutoffs.energy(b.electron), units::MevMass{me})
                        .min_secondary_energy());
            else if (model == kBraggICRU73QO)
                mu_threshold = value_as<MevEnergy>(
                    BraggICRU73QOEnergyDistribution(particle, cutoffs.energy(b.electron), units::MevMass{me})
                        .min_secondary_energy());
            if (mu_threshold >= 0 && !(e > mu_threshold))
            {
                rr.count("skipped_below_model_threshold");
                continue;
            }
            // element of the material
            ElementComponentId elcomp{
                (unsigned)(u[3].get<double>() * material.num_elements()) % material.num_elements()};
            ElementId el_id = material.element_id(elcomp);

            // ---- the allocation fault: free cells for this call ----
            unsigned need_max = 2;
            AtomicRelaxationHelper relax_helper(
                relax_params_ref, relax_states_ref, ElementId{0}, TrackSlotId{0});
            if (model == kLivermorePE)
                need_max = 1 + (use_relax && relax_helper ? relax_helper.max_secondaries() : 0);
            unsigned free_cells;
            {
                double v = u[4].get<double>();
                if (v < 0.55)
                    free_cells = capacity;  // no fault
                else
                    free_cells = (unsigned)((v - 0.55) / 0.45 * (need_max + 1));  // 0..need_max
            }
            free_cells = std::min(free_cells, capacity);
            unsigned size_before = capacity - free_cells;
            // fill the occupied part with a recognisable pattern
            {
                auto& sref = stack.ref();
                for (unsigned i = 0; i < capacity; ++i)
                {
                    Secondary s;
                    s.particle_id = ParticleId{(unsigned)b.particles->size() + 7};
                    s.energy = MevEnergy{-(double)(i + 1)};
                    s.direction = {7, 7, 7};
                    sref.storage[ItemId<Secondary>{i}] = s;
                }
                sref.size[ItemId<size_type>{0}] = size_before;
            }

            // Seltzer-Berger tables start at 1 keV; the model declares
            // applicability from zero and the interactor only requires E > cut.
            // Below the first grid energy the table lookup reads out of bounds
            // (recorded finding; the call is made only in the finding's replay)
            if (model == kSeltzerBerger || (model == kCombinedBrem && e < sb_limit))
            {
                auto const& sbd = b.sb->host_ref().differential_xs;
                double emin = std::exp(sbd.reals[sbd.elements[ElementId{0}].grid.x.front()]);
                if (e < emin)
                {
                    rr.probe("sb_energy_below_table");
                    std::ostringstream os;
                    os.precision(17);
                    os << "incident energy " << e << " MeV is above the cut " << cut
                       << " but below the first energy of the Seltzer-Berger table (" << emin
                       << " MeV): SBEnergyDistHelper::make_xs_calc reads before the grid";
                    rr.violate("C04", "table-read-below-grid", "table-read-below-grid:" + mname, os.str());
                    if (!plan.value("call_below_grid", false))
                        continue;
                }
            }
            if (std::getenv("VSIM_TRACE"))
            {
                std::cerr.precision(17);
                std::cerr << "call model=" << mname << " pid=" << pid.get() << " E=" << e
                          << " cut=" << cut << " material=" << ms.names[mat_id.get()]
                          << " free=" << free_cells << " seed=" << seed << std::endl;
            }
            SimEngine rng(seed, p_extreme, plan.value("draw_budget", 2000000));
            Interaction res;
            bool limit = false;
            try
            {
                switch (model)
                {
                    case kKleinNishina: {
                        KleinNishinaData d;
                        d.ids.electron = b.electron;
                        d.ids.gamma = b.gamma;
                        d.inv_electron_mass = 1 / me;
                        KleinNishinaInteractor interact(d, particle, dir, allocate);
                        res = interact(rng);
                        break;
                    }
                    case kEPlusGG: {
                        EPlusGGData d;
                        d.positron = b.positron;
                        d.gamma = b.gamma;
                        d.electron_mass = units::MevMass{me};
                        EPlusGGInteractor interact(d, particle, dir, allocate);
                        res = interact(rng);
                        break;
                    }
                    case kMollerBhabha: {
                        MollerBhabhaData d;
                        d.ids.electron = b.electron;
                        d.ids.positron = b.positron;
                        d.electron_mass = units::MevMass{me};
                        MollerBhabhaInteractor interact(d, particle, cutoffs, dir, allocate);
                        res = interact(rng);
                        break;
                    }
                    case kBetheHeitler: {
                        BetheHeitlerData d;
                        d.ids.electron = b.electron;
                        d.ids.positron = b.positron;
                        d.ids.gamma = b.gamma;
                        d.electron_mass = units::MevMass{me};
                        d.enable_lpm = lpm;
                        ElementView element = material.make_element_view(elcomp);
                        BetheHeitlerInteractor interact(d, particle, dir, allocate, material, element);
                        res = interact(rng);
                        break;
                    }
                    case kMuBrems: {
                        MuBremsstrahlungData d;
                        d.gamma = b.gamma;
                        d.mu_minus = b.mu_minus;
                        d.mu_plus = b.mu_plus;
                        d.electron_mass = units::MevMass{me};
                        MuBremsstrahlungInteractor interact(d, particle, dir, cutoffs, allocate,
                                                            material, elcomp);
                        res = interact(rng);
                        break;
                    }
                    case kBetheBloch: {
                        MuHadIonizationData d{b.electron, units::MevMass{me}};
                        MuHadIonizationInteractor<BetheBlochEnergyDistribution> interact(
                            d, particle, cutoffs, dir, allocate);
                        res = interact(rng);
                        break;
                    }
                    case kMuBetheBloch: {
                        MuHadIonizationData d{b.electron, units::MevMass{me}};
                        MuHadIonizationInteractor<MuBBEnergyDistribution> interact(
                            d, particle, cutoffs, dir, allocate);
                        res = interact(rng);
                        break;
                    }
                    case kBraggICRU73QO: {
                        MuHadIonizationData d{b.electron, units::MevMass{me}};
                        MuHadIonizationInteractor<BraggICRU73QOEnergyDistribution> interact(
                            d, particle, cutoffs, dir, allocate);
                        res = interact(rng);
                        break;
                    }
                    case kRayleigh: {
                        RayleighInteractor interact(b.rayleigh->host_ref(), particle, dir, el_id);
                        res = interact(rng);
                        break;
                    }
                    case kRelBrem: {
                        RelativisticBremInteractor interact(b.relbrem[lpm]->host_ref(), particle,
                                                            dir, cutoffs, allocate, material, elcomp);
                        res = interact(rng);
                        break;
                    }
                    case kSeltzerBerger: {
                        SeltzerBergerInteractor interact(b.sb->host_ref(), particle, dir, cutoffs,
                                                         allocate, material, elcomp);
                        res = interact(rng);
                        break;
                    }
                    case kCombinedBrem: {
                        CombinedBremInteractor interact(b.combined[lpm]->host_ref(), particle, dir,
                                                        cutoffs, allocate, material, elcomp);
                        res = interact(rng);
                        break;
                    }
                    case kLivermorePE: {
                        LivermorePEInteractor interact(b.livermore->host_ref(), relax_helper,
                                                       ElementId{0}, particle, cutoffs, dir,
                                                       allocate);
                        res = interact(rng);
                        break;
                    }
                }
            }
            catch (DrawLimit const&)
            {
                limit = true;
            }
            ++ncalls;
            decades.insert((int)std::floor(std::log10(e > 0 ? e : 1e-12)));
            total_draws += rng.count();
            total_extreme += rng.extremes();
            max_draws = std::max<std::uint64_t>(max_draws, rng.count());

            std::ostringstream ctx;
            ctx.precision(17);
            ctx << " [model=" << mname << " particle=" << pid.get() << " E=" << e << " dir=" << fmt3(dir)
                << " material=" << ms.names[mat_id.get()] << " element=" << el_id.get()
                << " cut=" << cut << " lpm=" << lpm << " relax=" << use_relax
                << " free_cells=" << free_cells << " p_extreme=" << p_extreme
                << " call_seed=" << seed << " draws=" << rng.count() << "]";
            // regimes under which a violation is filed (known findings are
            // recorded per class, model and regime; see known_findings.json)
            bool near_threshold = elo > 0 && (e - elo) <= 1e-6 * elo
                                  && (model == kMollerBhabha || model == kMuBrems
                                      || model == kSeltzerBerger || model == kCombinedBrem);
            // Numerical-edge classes met in one of these regimes are filed per
            // (class, regime); everything else per (class, model, sign).
            auto fingerprint = [&](std::string const& cls, bool zero_exit) {
                bool edge_class = cls == "invalid-exiting-energy" || cls == "invalid-secondary-energy"
                                  || cls == "exiting-direction-not-unit"
                                  || cls == "secondary-direction-not-unit"
                                  || cls == "sampling-not-bounded"
                                  || cls == "secondary-below-threshold";
                if (edge_class)
                {
                    if (near_threshold)
                        return cls + ":incident-energy-within-1e-6-of-threshold";
                    if (zero_exit)
                        return cls + ":zero-exiting-energy";
                    if (rng.extremes() > 0)
                        return cls + ":extreme-random-output";
                }
                // rotate() mirrors the azimuth of incident directions within
                // 0.005 of the z axis that have a negative y component
                if (cls == "momentum-not-conserved" && std::sqrt(1 - dir[2] * dir[2]) < 0.005
                    && dir[1] < 0)
                    return cls + ":rotate-near-pole-negative-y";
                return cls + ":" + mname + (pid == b.positron ? ":e+" : "");
            };
            if (limit)
            {
                rr.violate("C04", "sampling-not-bounded", fingerprint("sampling-not-bounded", false),
                           "sampling did not finish within the draw budget" + ctx.str());
                continue;
            }
            unsigned size_after = stack.ref().size[ItemId<size_type>{0}];
            hh.add((int)res.action);
            hh.add(res.energy.value());
            hh.add((int)res.secondaries.size());
            hh.add(rng.count());
            outcomes.insert((int)res.action * 8 + std::min<int>(7, res.secondaries.size()));

            auto bad = [&](std::string const& cls, std::string const& msg) {
                bool zero_exit = res.action == Interaction::Action::scattered
                                 && res.energy.value() == 0;
                rr.violate("C04", cls, fingerprint(cls, zero_exit), msg + ctx.str());
            };

            // ---- explicit failure, nothing partially emitted ----
            if (res.action == Interaction::Action::failed)
            {
                ++nfail;
                if (!res.secondaries.empty())
                    bad("failure-with-secondaries", "failed interaction carries secondaries");
                if (size_after != size_before)
                    bad("failure-left-allocation",
                        "after a failed interaction the secondary stack holds "
                            + std::to_string(size_after) + " entries, " + std::to_string(size_before)
                            + " before the call");
                if (free_cells >= need_max)
                    bad("failure-with-enough-storage",
                        "interaction failed although " + std::to_string(free_cells)
                            + " cells were free");
                if (res.energy_deposition.value() != 0)
                    bad("failure-with-deposit", "failed interaction deposits energy");
                // occupied cells untouched
                check_pattern(stack.ref(), size_before, b, bad);
                continue;
            }
            // storage accounting: the result's span is what was allocated
            if (size_after > capacity)
                bad("stack-overflow", "stack size exceeds capacity after the call");
            if (size_after < size_before + res.secondaries.size())
                bad("allocation-mismatch",
                    "stack grew by " + std::to_string((long)size_after - (long)size_before)
                        + " but the interaction reports " + std::to_string(res.secondaries.size())
                        + " secondaries");
            else
            {
                if (!res.secondaries.empty()
                    && res.secondaries.data() != &stack.ref().storage[ItemId<Secondary>{size_before}])
                    bad("secondaries-not-in-stack",
                        "secondaries span does not point at the allocated cells");
                // cells allocated beyond the reported span must be empty
                for (unsigned i = size_before + res.secondaries.size(); i < std::min(size_after, capacity); ++i)
                    if (stack.ref().storage[ItemId<Secondary>{i}])
                    {
                        bad("unreported-secondary",
                            "an allocated cell beyond the reported secondaries holds a particle");
                        break;
                    }
            }
            check_pattern(stack.ref(), size_before, b, bad);

            if (res.action == Interaction::Action::unchanged)
            {
                ++nunchanged;
                if (!res.secondaries.empty() || res.energy_deposition.value() != 0)
                    bad("unchanged-with-products", "unchanged interaction has products");
                continue;
            }

            // ---- validity of the final state ----
            double e_out = 0;
            long double pin[3], pout[3] = {0, 0, 0};
            double m_in = particle.mass().value();
            auto mom = [](double ke, double m) { return std::sqrt((long double)ke * (ke + 2 * (long double)m)); };
            for (int k = 0; k < 3; ++k)
                pin[k] = mom(e, m_in) * dir[k];
            if (res.action == Interaction::Action::scattered)
            {
                e_out = res.energy.value();
                if (!std::isfinite(e_out) || e_out < 0)
                {
                    std::ostringstream os;
                    os.precision(17);
                    os << "exiting energy is negative or not finite: " << e_out;
                    bad("invalid-exiting-energy", os.str());
                }
                double n = norm(res.direction);
                if (!(std::fabs(n - 1) < 1e-9))
                    bad("exiting-direction-not-unit",
                        "exiting direction has norm " + std::to_string(n));
                for (int k = 0; k < 3; ++k)
                    pout[k] += mom(e_out, m_in) * res.direction[k];
            }
            else if (res.energy.value() != 0)
                bad("absorbed-with-energy", "absorbed incident keeps energy");
            double dep = res.energy_deposition.value();
            if (!std::isfinite(dep) || dep < 0)
                bad("invalid-deposit", "local energy deposition is negative or not finite: "
                                           + std::to_string(dep));
            long double q_out = e_out + dep;
            if (res.action == Interaction::Action::scattered && pid == b.positron)
                q_out += 2 * me;
            bool all_emitted = true;
            for (Secondary const& s : res.secondaries)
            {
                if (!s)
                {
                    // cut secondary: energy was deposited locally
                    ++ncutsec;
                    all_emitted = false;
                    continue;
                }
                ++nsec;
                if (!(s.particle_id < b.particles->size()))
                {
                    bad("secondary-undefined-particle", "secondary has an undefined particle id");
                    continue;
                }
                double se = s.energy.value();
                if (!std::isfinite(se) || !(se >= 0))
                    bad("invalid-secondary-energy",
                        "secondary energy is negative or not finite: " + std::to_string(se));
                double n = norm(s.direction);
                if (!(std::fabs(n - 1) < 1e-9))
                    bad("secondary-direction-not-unit",
                        "secondary direction has norm " + std::to_string(n));
                q_out += se;
                if (s.particle_id == b.positron)
                    q_out += 2 * me;
                double sm = b.particles->get(s.particle_id).mass().value();
                for (int k = 0; k < 3; ++k)
                    pout[k] += mom(se, sm) * s.direction[k];
                // the model's own production threshold
                double thr = -1;
                switch (model)
                {
                    case kKleinNishina:
                        thr = value_as<MevEnergy>(KleinNishinaInteractor::secondary_cutoff());
                        break;
                    case kMollerBhabha:
                        if (s.particle_id == b.electron)
                            thr = cut;
                        break;
                    case kBetheBloch:
                    case kMuBetheBloch:
                    case kBraggICRU73QO:
                        if (s.particle_id == b.electron)
                            thr = mu_threshold;
                        break;
                    case kMuBrems:
                    case kRelBrem:
                    case kSeltzerBerger:
                    case kCombinedBrem:
                        if (s.particle_id == b.gamma)
                            thr = cut;
                        break;
                    case kLivermorePE:
                        // relaxation products obey the production cuts; the
                        // photoelectron (first secondary) does not
                        if (&s != res.secondaries.data())
                            thr = cut;
                        break;
                    default: break;
                }
                // to rounding of the sampling: the bremsstrahlung samplers form
                // k^2 = (k_c^2 + k_p^2) (..)^u - k_p^2 with the density
                // correction k_p^2 = 4 pi r_e lambda_bar^2 n_e E_tot^2, so k^2 near
                // the threshold carries an absolute error of a few ulp of k_p^2
                double tol_thr = 1e-12;
                if (model == kRelBrem || model == kSeltzerBerger || model == kCombinedBrem)
                {
                    double etot = e + me;
                    double kp2 = 4 * constants::pi * constants::r_electron
                                 * ipow<2>(constants::lambdabar_electron)
                                 * material.electron_density() * etot * etot;
                    tol_thr += 16 * 2.2e-16 * kp2 / (thr * thr);
                }
                if (thr > 0 && se < thr * (1 - tol_thr))
                {
                    std::ostringstream os;
                    os.precision(17);
                    os << "secondary of " << se << " MeV is below the production threshold " << thr
                       << " (relative rounding allowance " << tol_thr << ")";
                    bad("secondary-below-threshold", os.str());
                }
            }
            long double q_in = e + (pid == b.positron ? 2 * me : 0);
            long double tolq = 1e-11L * (q_in + 2 * me);
            rr.count("energy_checks");
            if (std::fabs((double)(q_in - q_out)) > (double)tolq)
            {
                std::ostringstream os;
                os.precision(17);
                os << "energy not conserved: in " << (double)q_in << " out " << (double)q_out
                   << " (exiting " << e_out << ", deposit " << dep << ", " << res.secondaries.size()
                   << " secondaries)";
                bad("energy-not-conserved", os.str());
            }
            // momentum where the model returns all products
            bool closed = (model == kKleinNishina || model == kEPlusGG || model == kMollerBhabha
                           || model == kBetheBloch || model == kMuBetheBloch
                           || model == kBraggICRU73QO)
                          && all_emitted && dep == 0;
            if (closed)
            {
                long double dp = 0, sc = 0;
                for (int k = 0; k < 3; ++k)
                {
                    dp += (pin[k] - pout[k]) * (pin[k] - pout[k]);
                    sc += pin[k] * pin[k];
                }
                dp = std::sqrt(dp);
                // scale: all momenta involved (rounding of the subtractions)
                long double scale = std::sqrt(sc) + mom(e_out, m_in) + me;
                rr.count("momentum_checks");
                rr.stats["max_momentum_error_rel"] = std::max(
                    rr.stats.value("max_momentum_error_rel", 0.0), (double)(dp / scale));
                if (dp > 1e-6L * scale)
                {
                    std::ostringstream os;
                    os.precision(9);
                    os << "momentum not conserved: |p_in - p_out| = " << (double)dp << " MeV/c of "
                       << (double)std::sqrt(sc);
                    bad("momentum-not-conserved", os.str());
                }
            }
        }
        rr.hash = hh.value();
        Hasher sh;
        sh.add(model);
        for (int o : outcomes)
            sh.add(o);
        sh.add(nfail > 0);
        sh.add((long)mat_id.get());
        for (int d : decades)
            sh.add(d);
        sh.add((int)std::floor(std::log10(cut > 0 ? cut : 1e-12)));
        sh.add(lpm);
        sh.add(use_relax);
        rr.shape = sh.value();
        rr.nontrivial = ncalls >= 20 && (nsec > 0 || model == kRayleigh);
        rr.count("calls", ncalls);
        rr.count(std::string("model:") + mname);
        rr.count("outcome:failed", nfail);
        rr.count("outcome:unchanged", nunchanged);
        rr.count("secondaries_emitted", nsec);
        rr.count("secondaries_cut", ncutsec);
        rr.count("random_draws", (long)total_draws);
        rr.fault("allocation_failure_forced", nfail);
        rr.fault("extreme_random_output", (long)total_extreme);
        rr.stats["max_draws_per_call"]
            = std::max<double>(rr.stats.value("max_draws_per_call", 0.0), (double)max_draws);
        json s;
        s["model"] = mname;
        s["material"] = ms.names[mat_id.get()];
        s["cut_MeV"] = cut;
        s["calls"] = ncalls;
        s["failed"] = nfail;
        s["secondaries"] = nsec;
        s["max_draws"] = max_draws;
        rr.sample = s;
    }

    static void cutoffs_positive_required(RunResult&) {}

    template<class Ref, class F>
    static void check_pattern(Ref const& sref, unsigned size_before, Bench const& b, F&& bad)
    {
        for (unsigned i = 0; i < size_before; ++i)
        {
            Secondary const& s = sref.storage[ItemId<Secondary>{i}];
            if (s.energy.value() != -(double)(i + 1) || s.direction[0] != 7
                || s.particle_id.unchecked_get() != b.particles->size() + 7)
            {
                bad("occupied-cell-overwritten",
                    "secondary stack cell " + std::to_string(i) + " below the allocation was modified");
                break;
            }
        }
    }

    std::vector<json> shrink(json const& plan) const override
    {
        std::vector<json> out;
        auto const& calls = plan.at("calls");
        std::size_t n = calls.size();
        for (std::size_t chunk = n / 2; chunk >= 1; chunk /= 2)
        {
            for (std::size_t start = 0; start < n; start += chunk)
            {
                json p = plan;
                json kept = json::array();
                for (std::size_t i = 0; i < n; ++i)
                    if (i < start || i >= start + chunk)
                        kept.push_back(calls[i]);
                if (kept.empty())
                    continue;
                p["calls"] = kept;
                out.push_back(p);
            }
            if (chunk == 1 || out.size() > 200)
                break;
        }
        if (plan.value("p_extreme", 0.0) > 0)
        {
            json p = plan;
            p["p_extreme"] = 0.0;
            out.push_back(p);
        }
        return out;
    }

    json describe(CheckSpec const&) const override
    {
        json d;
        d["level"] = "exploration";
        d["rule"]
            = "Each evaluation: one model (of 13), one material/element set, one production cut "
              "(0 or 1e-4..10 MeV), LPM/relaxation/Auger switches and 150 (400) calls. Per call the "
              "plan fixes the incident particle, an energy in the model's closed applicability "
              "interval (both end points, just inside them, log-uniform), a direction (isotropic "
              "or axis aligned), the element, the free cells of the secondary stack (all free, or "
              "0..max needed: the allocation fault) and the random stream (seeded; optionally "
              "forcing whole canonical draws to 0 or 1-2^-53 at seeded positions; 2e6 draw budget). "
              "Oracles: failure => no secondaries, no deposit, stack size and occupied cells as "
              "before, and only when fewer cells than the model's maximum were free; otherwise "
              "stack growth == reported secondaries, occupied cells untouched, finite non-negative "
              "energies, unit directions, defined particle ids, secondaries above the model's "
              "threshold, energy balance incl. 2mc^2 per created/annihilated positron to 1e-11, "
              "momentum balance to 1e-6 for the closed two-body models, draw budget not exceeded. "
              "Non-trivial: >= 20 calls with secondaries; distinct = (model, material, cut decade, switches, energy decades reached, outcome set).";
        d["components"] = {
            {"real",
             {"KleinNishina, EPlusGG, MollerBhabha, BetheHeitler, MuBremsstrahlung, "
              "MuHadIonization<BetheBloch|MuBB|BraggICRU73QO>, Rayleigh, RelativisticBrem, "
              "SeltzerBerger, CombinedBrem, LivermorePE interactors",
              "AtomicRelaxation + helper", "StackAllocator<Secondary>",
              "Rayleigh/RelativisticBrem/SeltzerBerger/CombinedBrem/LivermorePE model data "
              "builders", "MaterialParams, CutoffParams, ParticleParams and their views"}},
            {"stub", {"random engine (simulator-owned, counting, extreme-value injection)"}},
            {"not_run",
             {"CoulombScattering/Wentzel (needs imported Mott/nuclear form-factor data)",
              "ChipsNeutronElastic (needs CHIPS data)", "hadronic ionization for protons/alphas",
              "Seltzer-Berger and Livermore for elements other than Z=29 / Z=19 (no data)"}}};
        d["assumptions"] = {"momentum is judged only for models that return every product "
                            "(Compton with emitted electron, annihilation, Moller/Bhabha, "
                            "muon ionization)"};
        return d;
    }

    std::uint64_t default_runs(CheckSpec const& spec) const override
    {
        return spec.tier == "thorough" ? 60000 : 2000;
    }
};

std::unique_ptr<World> make_world_i()
{
    return std::make_unique<WorldI>();
}
RegisterWorld reg_i({"C04"}, &make_world_i);
}  // namespace
}  // namespace vsim
