// Deterministic thread scheduler ("baton"): every stream runs in a real
// std::thread, but exactly one thread is runnable at any time.  The hand-off
// is implemented in Baton.cc, which is compiled WITHOUT any sanitizer, with
// raw futex system calls and compiler atomics, so that ThreadSanitizer sees no
// happens-before edge between the threads from the scheduler itself: every
// pair of conflicting accesses that the program's own synchronisation does
// not order is reported although the threads never overlap in real time.
#pragma once

#include <cstdint>

extern "C" {
//! Reset the scheduler for n threads; seed decides every hand-off
void vsim_baton_init(int nthreads, std::uint64_t seed, double yield_prob, int nshared);
//! Called first by thread `id`: parks until it is scheduled
void vsim_baton_begin(int id);
//! Possible pre-emption point
void vsim_baton_yield(int id, char const* site);
//! Thread `id` is finished: hands the baton on for good
void vsim_baton_end(int id);
//! Hash of the interleaving (sequence of (thread, site) hand-offs)
std::uint64_t vsim_baton_trace();
std::uint64_t vsim_baton_switches();
//! Shared counters that live in the unsanitized unit (invisible to TSan)
long vsim_baton_fetch_add(int which, long delta);
//! Current thread id according to the scheduler (-1 outside)
int vsim_baton_current();
}
