#pragma once
#include <string>
#include "World.hh"

namespace vsim
{
struct Options
{
    std::string property;
    std::string tier{"quick"};
    std::uint64_t seed{1};
    long runs{0};  //!< 0 = world default for the tier
    double budget_s{0};  //!< wall-clock cap for the search (0 = none)
    double run_timeout_s{300};  //!< a single run longer than this is a hang
    int workers{16};
    int repeat{1};  //!< 2 = determinism mode (each plan twice)
    int shrink_tries{400};  // crash classes use a tenth of this
    double shrink_budget_s{120};
    std::string evidence;
    std::string verif_dir{"/verif"};
};

int cmd_run(Options const& opt);
int cmd_exec(std::string const& planfile);
int cmd_replay(std::string const& planfile, Options const& opt);
int cmd_plan(Options const& opt, std::uint64_t index);
}  // namespace vsim
