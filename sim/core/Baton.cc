// See Baton.hh.  NO sanitizer instrumentation in this translation unit.
#include <cerrno>
#include <climits>
#include <cstdint>
#include <cstring>
#include <linux/futex.h>
#include <sys/syscall.h>
#include <unistd.h>

namespace
{
constexpr int kMax = 64;
int g_n = 0;
int g_current = -1;  // thread holding the baton
int g_word[kMax];  // futex words: 1 = may run
int g_done[kMax];
std::uint64_t g_rng = 0;
std::uint64_t g_trace = 0;
std::uint64_t g_switches = 0;
double g_yield_prob = 1.0;
long g_shared[16];

std::uint64_t next_rand()
{
    g_rng += 0x9e3779b97f4a7c15ull;
    std::uint64_t z = g_rng;
    z = (z ^ (z >> 30)) * 0xbf58476d1ce4e5b9ull;
    z = (z ^ (z >> 27)) * 0x94d049bb133111ebull;
    return z ^ (z >> 31);
}

void mix_trace(int id, char const* site)
{
    std::uint64_t h = g_trace ^ (0xcbf29ce484222325ull + id);
    if (site)
        for (char const* p = site; *p; ++p)
        {
            h ^= static_cast<unsigned char>(*p);
            h *= 0x100000001b3ull;
        }
    h *= 0x100000001b3ull;
    g_trace = h;
}

void futex_wait(int* addr, int val)
{
    syscall(SYS_futex, addr, FUTEX_WAIT_PRIVATE, val, nullptr, nullptr, 0);
}
void futex_wake(int* addr)
{
    syscall(SYS_futex, addr, FUTEX_WAKE_PRIVATE, INT_MAX, nullptr, nullptr, 0);
}

void park(int id)
{
    while (__atomic_load_n(&g_word[id], __ATOMIC_SEQ_CST) == 0)
    {
        futex_wait(&g_word[id], 0);
    }
}

void grant(int id)
{
    g_current = id;
    __atomic_store_n(&g_word[id], 1, __ATOMIC_SEQ_CST);
    futex_wake(&g_word[id]);
}

int pick_next(int self, bool self_allowed)
{
    int cand[kMax];
    int n = 0;
    for (int i = 0; i < g_n; ++i)
    {
        if (g_done[i])
            continue;
        if (i == self && !self_allowed)
            continue;
        cand[n++] = i;
    }
    if (n == 0)
        return -1;
    return cand[next_rand() % n];
}
}  // namespace

extern "C" {
void vsim_baton_init(int nthreads, std::uint64_t seed, double yield_prob, int)
{
    g_n = nthreads > kMax ? kMax : nthreads;
    g_rng = seed;
    g_trace = 0;
    g_switches = 0;
    g_yield_prob = yield_prob;
    g_current = -1;
    std::memset(g_word, 0, sizeof(g_word));
    std::memset(g_done, 0, sizeof(g_done));
    std::memset(g_shared, 0, sizeof(g_shared));
    // the first runnable thread is chosen now
    int first = static_cast<int>(next_rand() % g_n);
    g_current = first;
    g_word[first] = 1;
}

void vsim_baton_begin(int id)
{
    park(id);
}

void vsim_baton_yield(int id, char const* site)
{
    if (g_n <= 1 || id < 0 || id >= g_n)
        return;
    // decide whether to pre-empt here
    double u = (next_rand() >> 11) * (1.0 / 9007199254740992.0);
    if (u >= g_yield_prob)
        return;
    int next = pick_next(id, true);
    mix_trace(next, site);
    if (next == id || next < 0)
        return;
    ++g_switches;
    __atomic_store_n(&g_word[id], 0, __ATOMIC_SEQ_CST);
    grant(next);
    park(id);
}

void vsim_baton_end(int id)
{
    if (id < 0 || id >= g_n)
        return;
    g_done[id] = 1;
    int next = pick_next(id, false);
    mix_trace(next, "end");
    if (next >= 0)
    {
        ++g_switches;
        grant(next);
    }
    else
    {
        g_current = -1;
    }
}

std::uint64_t vsim_baton_trace()
{
    return g_trace;
}
std::uint64_t vsim_baton_switches()
{
    return g_switches;
}
long vsim_baton_fetch_add(int which, long delta)
{
    long old = g_shared[which & 15];
    g_shared[which & 15] = old + delta;
    return old;
}
int vsim_baton_current()
{
    return g_current;
}
}
