// placeholder
int vsim_baton_placeholder = 0;
