// Interface between the generic driver (seeded search, worker processes,
// reproduce-twice gate, minimiser, evidence) and a simulated "world".
#pragma once

#include <cstdint>
#include <map>
#include <memory>
#include <string>
#include <vector>
#include <nlohmann/json.hpp>

#include "Rng.hh"

namespace vsim
{
using json = nlohmann::json;

struct Violation
{
    std::string property;  //!< C01 ...
    std::string klass;  //!< violation class (kept fixed while shrinking)
    std::string fingerprint;  //!< structural key for known-findings matching
    std::string message;  //!< human-readable detail (first failing record)
};

inline void to_json(json& j, Violation const& v)
{
    j = json{{"p", v.property}, {"k", v.klass}, {"fp", v.fingerprint}, {"msg", v.message}};
}
inline void from_json(json const& j, Violation& v)
{
    v.property = j.at("p");
    v.klass = j.at("k");
    v.fingerprint = j.at("fp");
    v.message = j.at("msg");
}

struct RunResult
{
    std::uint64_t hash{0};  //!< hash of the full recorded history
    std::uint64_t shape{0};  //!< hash of the history *shape* (distinctness)
    bool nontrivial{false};
    long weight{1};  //!< number of executions this result stands for
    std::vector<std::uint64_t> extra_shapes;  //!< shapes of sub-executions
    json stats = json::object();  //!< counters, summed over runs
    json sample;  //!< short summary of this run for evidence
    std::vector<Violation> violations;

    void count(std::string const& key, long n = 1)
    {
        if (!stats.contains(key))
            stats[key] = 0;
        stats[key] = stats[key].get<long>() + n;
    }
    void fault(std::string const& kind, long n = 1)
    {
        auto& f = stats["faults_fired"];
        if (!f.contains(kind))
            f[kind] = 0;
        f[kind] = f[kind].get<long>() + n;
    }
    void probe(std::string const& kind, long n = 1)
    {
        auto& f = stats["probes"];
        if (!f.contains(kind))
            f[kind] = 0;
        f[kind] = f[kind].get<long>() + n;
    }
    void violate(std::string p, std::string k, std::string fp, std::string msg)
    {
        // keep only the first violation of each (property, class)
        for (auto const& v : violations)
            if (v.property == p && v.klass == k)
                return;
        violations.push_back({std::move(p), std::move(k), std::move(fp), std::move(msg)});
    }
};

inline json result_to_json(RunResult const& r)
{
    json j;
    j["hash"] = r.hash;
    j["shape"] = r.shape;
    j["nontrivial"] = r.nontrivial;
    j["weight"] = r.weight;
    j["xshapes"] = r.extra_shapes;
    j["stats"] = r.stats;
    j["sample"] = r.sample;
    j["viol"] = r.violations;
    return j;
}
inline RunResult result_from_json(json const& j)
{
    RunResult r;
    r.hash = j.at("hash");
    r.shape = j.at("shape");
    r.nontrivial = j.at("nontrivial");
    r.weight = j.value("weight", 1L);
    if (j.contains("xshapes"))
        r.extra_shapes = j["xshapes"].get<std::vector<std::uint64_t>>();
    r.stats = j.at("stats");
    r.sample = j.at("sample");
    r.violations = j.at("viol").get<std::vector<Violation>>();
    return r;
}

struct CheckSpec
{
    std::string property;
    std::string tier;  //!< quick | thorough
    std::uint64_t seed{1};
};

//! A simulated world: generates plans from seeds and executes plans.
class World
{
  public:
    virtual ~World() = default;
    //! Name for evidence
    virtual std::string name() const = 0;
    //! Generate the plan of run `index` of a check (pure function of args)
    virtual json make_plan(CheckSpec const& spec, std::uint64_t index) const = 0;
    //! Execute one plan (pure function of the plan and the code under test)
    virtual RunResult execute(json const& plan) const = 0;
    //! Candidate simplifications of a plan, simplest/most aggressive first
    virtual std::vector<json> shrink(json const& plan) const = 0;
    //! Static description for evidence: rule, components, assumptions, level
    virtual json describe(CheckSpec const& spec) const = 0;
    //! Default number of runs for a tier
    virtual std::uint64_t default_runs(CheckSpec const& spec) const = 0;
};

using WorldFactory = std::unique_ptr<World> (*)();
//! property id -> world
std::map<std::string, WorldFactory>& world_registry();

struct RegisterWorld
{
    RegisterWorld(std::initializer_list<char const*> props, WorldFactory f)
    {
        for (auto p : props)
            world_registry()[p] = f;
    }
};

}  // namespace vsim
