#pragma once
namespace vsim
{
//! offset/jump of 0 disables the simulated clock (default)
void sim_clock_configure(long long offset_ns, long long jump_ns, unsigned long long seed);
unsigned long long sim_clock_calls();
}  // namespace vsim
