// Seeded PRNG for the simulator: one integer decides everything.
// SplitMix64 with named sub-streams so that a new draw in one concern does
// not shift the others.  Never used by logging paths.
#pragma once

#include <cmath>
#include <cstdint>
#include <string_view>
#include <vector>

namespace vsim
{
inline std::uint64_t mix64(std::uint64_t z)
{
    z += 0x9e3779b97f4a7c15ull;
    z = (z ^ (z >> 30)) * 0xbf58476d1ce4e5b9ull;
    z = (z ^ (z >> 27)) * 0x94d049bb133111ebull;
    return z ^ (z >> 31);
}

inline std::uint64_t fnv1a(void const* data, std::size_t n, std::uint64_t h = 0xcbf29ce484222325ull)
{
    auto const* p = static_cast<unsigned char const*>(data);
    for (std::size_t i = 0; i < n; ++i)
    {
        h ^= p[i];
        h *= 0x100000001b3ull;
    }
    return h;
}

class Rng
{
  public:
    explicit Rng(std::uint64_t seed = 0) : s_(seed) {}

    std::uint64_t next()
    {
        s_ += 0x9e3779b97f4a7c15ull;
        std::uint64_t z = s_;
        z = (z ^ (z >> 30)) * 0xbf58476d1ce4e5b9ull;
        z = (z ^ (z >> 27)) * 0x94d049bb133111ebull;
        return z ^ (z >> 31);
    }
    //! Derive an independent named sub-stream (does not advance this stream)
    Rng sub(std::string_view name) const
    {
        return Rng(mix64(s_ ^ fnv1a(name.data(), name.size())));
    }
    Rng sub(std::uint64_t k) const { return Rng(mix64(s_ ^ mix64(k + 0x1234567ull))); }

    //! Uniform in [0,1)
    double uniform() { return (next() >> 11) * (1.0 / 9007199254740992.0); }
    double uniform(double a, double b) { return a + (b - a) * uniform(); }
    double log_uniform(double a, double b)
    {
        return std::exp(uniform(std::log(a), std::log(b)));
    }
    //! Integer in [0, n)
    std::uint64_t below(std::uint64_t n) { return n ? next() % n : 0; }
    //! Integer in [a, b]
    long range(long a, long b) { return a + static_cast<long>(below(b - a + 1)); }
    bool coin(double p) { return uniform() < p; }
    template<class T>
    T const& pick(std::vector<T> const& v)
    {
        return v[below(v.size())];
    }
    //! Weighted choice: returns index
    std::size_t weighted(std::vector<double> const& w)
    {
        double tot = 0;
        for (double x : w)
            tot += x;
        double u = uniform() * tot;
        for (std::size_t i = 0; i < w.size(); ++i)
        {
            if (u < w[i])
                return i;
            u -= w[i];
        }
        return w.size() - 1;
    }
    template<class T>
    void shuffle(std::vector<T>& v)
    {
        for (std::size_t i = v.size(); i > 1; --i)
        {
            std::size_t j = below(i);
            std::swap(v[i - 1], v[j]);
        }
    }
    //! Isotropic unit vector
    void isotropic(double out[3])
    {
        double mu = uniform(-1, 1);
        double phi = uniform(0, 2 * M_PI);
        double s = std::sqrt(std::max(0.0, 1 - mu * mu));
        out[0] = s * std::cos(phi);
        out[1] = s * std::sin(phi);
        out[2] = mu;
        // normalise exactly enough for celeritas' soft unit vector test
        double n = std::sqrt(out[0] * out[0] + out[1] * out[1] + out[2] * out[2]);
        for (int i = 0; i < 3; ++i)
            out[i] /= n;
    }
    std::uint64_t state() const { return s_; }

  private:
    std::uint64_t s_;
};

//! Incremental FNV-1a hasher over raw bytes of fields
class Hasher
{
  public:
    template<class T>
    void add(T const& v)
    {
        static_assert(std::is_trivially_copyable<T>::value, "raw hash");
        h_ = fnv1a(&v, sizeof(T), h_);
    }
    void add_bytes(void const* p, std::size_t n) { h_ = fnv1a(p, n, h_); }
    void add_str(std::string_view s)
    {
        h_ = fnv1a(s.data(), s.size(), h_);
        add<char>('\0');
    }
    std::uint64_t value() const { return h_; }

  private:
    std::uint64_t h_{0xcbf29ce484222325ull};
};

}  // namespace vsim
