// Simulated clock seam: the executable's own clock_gettime shadows libc's, so
// std::chrono::steady_clock::now() (used by celeritas::Stopwatch when
// action_times is on) reads real time plus a simulator-controlled offset.
// No deadline in the code under test reads a clock; the simulated clock only
// has to show that results ignore it (C06).
#include "SimClock.hh"

#include <ctime>
#include <sys/syscall.h>
#include <unistd.h>

namespace vsim
{
static long long g_offset_ns = 0;
static long long g_jump_ns = 0;
static unsigned long long g_calls = 0;
static unsigned long long g_lcg = 0;

void sim_clock_configure(long long offset_ns, long long jump_ns, unsigned long long seed)
{
    g_offset_ns = offset_ns;
    g_jump_ns = jump_ns;
    g_lcg = seed;
    g_calls = 0;
}
unsigned long long sim_clock_calls()
{
    return g_calls;
}
}  // namespace vsim

extern "C" int clock_gettime(clockid_t clk, struct timespec* ts)
{
    long rc = syscall(SYS_clock_gettime, clk, ts);
    if (rc == 0 && (vsim::g_offset_ns != 0 || vsim::g_jump_ns != 0)
        && (clk == CLOCK_MONOTONIC || clk == CLOCK_REALTIME))
    {
        ++vsim::g_calls;
        long long off = vsim::g_offset_ns;
        if (vsim::g_jump_ns)
        {
            // deterministic pseudo-random jump in [-jump, +jump] per call
            vsim::g_lcg = vsim::g_lcg * 6364136223846793005ull + 1442695040888963407ull;
            long long r = static_cast<long long>((vsim::g_lcg >> 33) % (2 * vsim::g_jump_ns + 1));
            off += r - vsim::g_jump_ns;
        }
        long long ns = ts->tv_sec * 1000000000ll + ts->tv_nsec + off;
        if (ns < 0)
            ns = 0;
        ts->tv_sec = ns / 1000000000ll;
        ts->tv_nsec = ns % 1000000000ll;
    }
    return static_cast<int>(rc);
}
