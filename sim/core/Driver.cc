// Generic driver: seeded search over plans with in-process worker processes,
// reproduce-twice gate, greedy minimiser, replay files, evidence.
#include "Driver.hh"

#include <algorithm>
#include <chrono>
#include <csignal>
#include <cstdio>
#include <cstdlib>
#include <cstring>
#include <fstream>
#include <iostream>
#include <set>
#include <sstream>
#include <fcntl.h>
#include <poll.h>
#include <sys/stat.h>
#include <sys/wait.h>
#include <unistd.h>

namespace vsim
{
std::map<std::string, WorldFactory>& world_registry()
{
    static std::map<std::string, WorldFactory> reg;
    return reg;
}

namespace
{
using Clock = std::chrono::steady_clock;

double elapsed_s(Clock::time_point t0)
{
    return std::chrono::duration<double>(Clock::now() - t0).count();
}

void merge_stats(json& into, json const& from)
{
    for (auto it = from.begin(); it != from.end(); ++it)
    {
        if (it->is_object())
        {
            if (!into.contains(it.key()))
                into[it.key()] = json::object();
            merge_stats(into[it.key()], *it);
        }
        else if (it->is_number_integer())
        {
            long cur = into.contains(it.key()) ? into[it.key()].get<long>() : 0;
            if (it.key().rfind("max_", 0) == 0)
                into[it.key()] = std::max(cur, it->get<long>());
            else
                into[it.key()] = cur + it->get<long>();
        }
        else if (it->is_number_float())
        {
            double cur = into.contains(it.key()) ? into[it.key()].get<double>() : 0;
            if (it.key().rfind("max_", 0) == 0)
                into[it.key()] = std::max(cur, it->get<double>());
            else
                into[it.key()] = cur + it->get<double>();
        }
    }
}

std::string self_exe()
{
    char buf[4096];
    ssize_t n = readlink("/proc/self/exe", buf, sizeof(buf) - 1);
    if (n <= 0)
        return "vsim";
    buf[n] = 0;
    return buf;
}

std::string read_all_fd(int fd)
{
    std::string out;
    char buf[65536];
    ssize_t n;
    while ((n = read(fd, buf, sizeof(buf))) > 0)
        out.append(buf, n);
    return out;
}

std::string tail_of_file(std::string const& path, std::size_t maxb = 2000)
{
    std::ifstream f(path, std::ios::binary);
    if (!f)
        return {};
    f.seekg(0, std::ios::end);
    auto sz = static_cast<std::size_t>(f.tellg());
    std::size_t start = sz > maxb ? sz - maxb : 0;
    f.seekg(start);
    std::string s(sz - start, '\0');
    f.read(&s[0], s.size());
    return s;
}

std::string status_to_class(int status)
{
    std::ostringstream os;
    if (WIFSIGNALED(status))
        os << "crash:signal-" << WTERMSIG(status);
    else if (WIFEXITED(status) && WEXITSTATUS(status) == 77)
        os << "crash:sanitizer";
    else if (WIFEXITED(status))
        os << "crash:exit-" << WEXITSTATUS(status);
    else
        os << "crash:unknown";
    return os.str();
}

//! Structural fingerprint of a sanitizer report: kind + function of frame 0
std::string crash_fingerprint(std::string const& klass, std::string const& err)
{
    auto pos = err.rfind("SUMMARY: ");
    if (pos == std::string::npos)
        return klass;
    auto end = err.find('\n', pos);
    std::string line = err.substr(pos + 9, end == std::string::npos ? std::string::npos : end - pos - 9);
    // "AddressSanitizer: heap-buffer-overflow /path/file.hh:42 in double ns::f<double>(...)"
    std::string kind, func;
    auto c = line.find(": ");
    if (c != std::string::npos)
    {
        auto sp = line.find(' ', c + 2);
        kind = line.substr(c + 2, sp == std::string::npos ? std::string::npos : sp - c - 2);
    }
    auto in = line.find(" in ");
    if (in != std::string::npos)
    {
        func = line.substr(in + 4);
        auto par = func.find('(');
        if (par != std::string::npos)
            func = func.substr(0, par);
    }
    return klass + ":" + kind + ":" + func;
}

struct ChildOutcome
{
    bool ok{false};  //!< child produced a result
    RunResult result;
    std::string crash_class;
    std::string err_tail;
};

//! Execute a plan in a forked child of this (pristine) parent
ChildOutcome run_plan_forked(World const& world,
                             json const& plan,
                             std::string const& property,
                             std::string const& logdir,
                             double timeout_s)
{
    ChildOutcome out;
    int fds[2];
    if (pipe(fds) != 0)
        return out;
    std::string errfile = logdir + "/fork-" + std::to_string(getpid()) + ".err";
    fflush(nullptr);
    pid_t pid = fork();
    if (pid == 0)
    {
        close(fds[0]);
        int efd = open(errfile.c_str(), O_WRONLY | O_CREAT | O_TRUNC, 0644);
        if (efd >= 0)
        {
            dup2(efd, 2);
            close(efd);
        }
        RunResult r = world.execute(plan);
        std::string s = result_to_json(r).dump();
        s.push_back('\n');
        (void)!write(fds[1], s.data(), s.size());
        close(fds[1]);
        _exit(0);
    }
    close(fds[1]);
    // read with timeout
    std::string data;
    auto t0 = Clock::now();
    bool timed_out = false;
    for (;;)
    {
        struct pollfd p{fds[0], POLLIN, 0};
        int rc = poll(&p, 1, 200);
        if (rc > 0)
        {
            char buf[65536];
            ssize_t n = read(fds[0], buf, sizeof(buf));
            if (n <= 0)
                break;
            data.append(buf, n);
        }
        if (elapsed_s(t0) > timeout_s)
        {
            timed_out = true;
            kill(pid, SIGKILL);
            break;
        }
    }
    close(fds[0]);
    int status = 0;
    waitpid(pid, &status, 0);
    if (!timed_out && WIFEXITED(status) && WEXITSTATUS(status) == 0 && !data.empty())
    {
        try
        {
            out.result = result_from_json(json::parse(data));
            out.ok = true;
            return out;
        }
        catch (std::exception const&)
        {
        }
    }
    out.crash_class = timed_out ? "hang" : status_to_class(status);
    out.err_tail = tail_of_file(errfile);
    out.err_tail = tail_of_file(errfile, 200000);
    out.result.violate(property,
                       out.crash_class,
                       crash_fingerprint(out.crash_class, out.err_tail),
                       "process died while executing the plan: "
                           + (out.err_tail.size() > 3000 ? out.err_tail.substr(0, 3000)
                                                         : out.err_tail));
    return out;
}

//! Execute a plan file in a fresh process (fork+exec of this binary)
ChildOutcome run_plan_fresh(std::string const& planfile,
                            std::string const& property,
                            std::string const& logdir,
                            double timeout_s)
{
    ChildOutcome out;
    int fds[2];
    if (pipe(fds) != 0)
        return out;
    std::string errfile = logdir + "/exec-" + std::to_string(getpid()) + ".err";
    std::string exe = self_exe();
    fflush(nullptr);
    pid_t pid = fork();
    if (pid == 0)
    {
        close(fds[0]);
        dup2(fds[1], 1);
        close(fds[1]);
        int efd = open(errfile.c_str(), O_WRONLY | O_CREAT | O_TRUNC, 0644);
        if (efd >= 0)
        {
            dup2(efd, 2);
            close(efd);
        }
        execl(exe.c_str(), exe.c_str(), "exec", planfile.c_str(), (char*)nullptr);
        _exit(126);
    }
    close(fds[1]);
    std::string data;
    auto t0 = Clock::now();
    bool timed_out = false;
    for (;;)
    {
        struct pollfd p{fds[0], POLLIN, 0};
        int rc = poll(&p, 1, 200);
        if (rc > 0)
        {
            char buf[65536];
            ssize_t n = read(fds[0], buf, sizeof(buf));
            if (n <= 0)
                break;
            data.append(buf, n);
        }
        if (elapsed_s(t0) > timeout_s)
        {
            timed_out = true;
            kill(pid, SIGKILL);
            break;
        }
    }
    close(fds[0]);
    int status = 0;
    waitpid(pid, &status, 0);
    if (!timed_out && WIFEXITED(status) && WEXITSTATUS(status) == 0 && !data.empty())
    {
        try
        {
            // last line is the result
            auto pos = data.rfind('\n', data.size() - 2);
            std::string line = pos == std::string::npos ? data : data.substr(pos + 1);
            out.result = result_from_json(json::parse(line));
            out.ok = true;
            return out;
        }
        catch (std::exception const&)
        {
        }
    }
    out.crash_class = timed_out ? "hang" : status_to_class(status);
    out.err_tail = tail_of_file(errfile);
    out.err_tail = tail_of_file(errfile, 200000);
    out.result.violate(property,
                       out.crash_class,
                       crash_fingerprint(out.crash_class, out.err_tail),
                       "process died while executing the plan: "
                           + (out.err_tail.size() > 3000 ? out.err_tail.substr(0, 3000)
                                                         : out.err_tail));
    return out;
}

bool has_violation(RunResult const& r, std::string const& p, std::string const& k)
{
    for (auto const& v : r.violations)
        if (v.property == p && v.klass == k)
            return true;
    return false;
}

Violation const* find_violation(RunResult const& r, std::string const& p, std::string const& k)
{
    for (auto const& v : r.violations)
        if (v.property == p && v.klass == k)
            return &v;
    return nullptr;
}

struct KnownFindings
{
    struct Entry
    {
        std::string property, fingerprint, what;
    };
    std::vector<Entry> findings;

    void load(std::string const& path)
    {
        std::ifstream f(path);
        if (!f)
            return;
        json j = json::parse(f, nullptr, false);
        if (j.is_discarded() || !j.contains("findings"))
            return;
        for (auto const& e : j["findings"])
        {
            findings.push_back({e.value("property", ""),
                                e.value("fingerprint", ""),
                                e.value("what", "")});
        }
    }
    Entry const* match(Violation const& v) const
    {
        for (auto const& e : findings)
            if (e.property == v.property && e.fingerprint == v.fingerprint)
                return &e;
        return nullptr;
    }
};

struct Worker
{
    pid_t pid{-1};
    int fd{-1};
    std::string buf;
    long current{-1};  //!< index being executed
    long next_start{0};  //!< first index of this stride not yet started
    Clock::time_point started;
    bool done{false};
    int slot{0};
};

}  // namespace

//---------------------------------------------------------------------------//
int cmd_exec(std::string const& planfile)
{
    std::ifstream f(planfile);
    if (!f)
    {
        std::cerr << "cannot open " << planfile << "\n";
        return 2;
    }
    json doc = json::parse(f);
    json const& plan = doc.contains("plan") ? doc["plan"] : doc;
    std::string prop = plan.at("property");
    auto it = world_registry().find(prop);
    if (it == world_registry().end())
    {
        std::cerr << "no world for " << prop << "\n";
        return 2;
    }
    auto world = it->second();
    RunResult r = world->execute(plan);
    std::cout << result_to_json(r).dump() << std::endl;
    return 0;
}

//---------------------------------------------------------------------------//
int cmd_replay(std::string const& planfile, Options const& opt)
{
    std::ifstream f(planfile);
    if (!f)
    {
        std::cerr << "cannot open " << planfile << "\n";
        return 2;
    }
    json doc = json::parse(f);
    json const& plan = doc.contains("plan") ? doc["plan"] : doc;
    std::string prop = plan.at("property");
    std::string logdir = opt.verif_dir + "/replays";
    mkdir(logdir.c_str(), 0755);
    auto out = run_plan_fresh(planfile, prop, logdir, 600);
    bool any = false;
    for (auto const& v : out.result.violations)
    {
        if (doc.contains("expect") && doc["expect"].value("property", prop) != v.property)
            continue;
        std::cout << "violation property=" << v.property << " class=" << v.klass
                  << " fingerprint=" << v.fingerprint << "\n  " << v.message << "\n";
        if (v.property == prop)
        {
            std::cout << "VIOLATION property=" << v.property << " replay=" << planfile
                      << std::endl;
            any = true;
        }
    }
    if (!any)
        std::cout << "replay: no violation of " << prop << " (hash " << out.result.hash
                  << ")\n";
    return any ? 1 : 0;
}

//---------------------------------------------------------------------------//
int cmd_plan(Options const& opt, std::uint64_t index)
{
    auto it = world_registry().find(opt.property);
    if (it == world_registry().end())
        return 2;
    auto world = it->second();
    CheckSpec spec{opt.property, opt.tier, opt.seed};
    std::cout << world->make_plan(spec, index).dump(1) << std::endl;
    return 0;
}

//---------------------------------------------------------------------------//
static void worker_loop(World const& world,
                        CheckSpec const& spec,
                        long start,
                        long stride,
                        long runs,
                        int wfd,
                        Clock::time_point t0,
                        double budget_s,
                        int repeat)
{
    for (long i = start; i < runs; i += stride)
    {
        if (budget_s > 0 && elapsed_s(t0) > budget_s)
            break;
        {
            std::string s = "S " + std::to_string(i) + "\n";
            (void)!write(wfd, s.data(), s.size());
        }
        json plan = world.make_plan(spec, i);
        RunResult r = world.execute(plan);
        json j = result_to_json(r);
        if (repeat > 1)
        {
            // determinism mode: run the same plan again in this process
            RunResult r2 = world.execute(plan);
            j["hash2"] = r2.hash;
        }
        std::string s = "R " + std::to_string(i) + " " + j.dump() + "\n";
        std::size_t off = 0;
        while (off < s.size())
        {
            ssize_t n = write(wfd, s.data() + off, s.size() - off);
            if (n <= 0)
                _exit(3);
            off += n;
        }
    }
    std::string s = "D\n";
    (void)!write(wfd, s.data(), s.size());
}

//---------------------------------------------------------------------------//
int cmd_run(Options const& opt)
{
    auto t0 = Clock::now();
    auto it = world_registry().find(opt.property);
    if (it == world_registry().end())
    {
        std::cerr << "no world registered for property " << opt.property << "\n";
        return 2;
    }
    auto world = it->second();
    CheckSpec spec{opt.property, opt.tier, opt.seed};
    long runs = opt.runs > 0 ? opt.runs : static_cast<long>(world->default_runs(spec));
    int nworkers = static_cast<int>(std::max<long>(1, std::min<long>(opt.workers, runs)));
    double budget_s = opt.budget_s;
    double run_timeout = opt.run_timeout_s;

    std::string logdir = opt.verif_dir + "/replays";
    mkdir(logdir.c_str(), 0755);
    std::string runlog = logdir + "/logs";
    mkdir(runlog.c_str(), 0755);

    KnownFindings known;
    known.load(opt.verif_dir + "/known_findings.json");

    std::printf("VERIF_SEED=%llu property=%s tier=%s world=%s runs=%ld workers=%d\n",
                (unsigned long long)opt.seed,
                opt.property.c_str(),
                opt.tier.c_str(),
                world->name().c_str(),
                runs,
                nworkers);
    std::fflush(stdout);

    std::vector<Worker> workers(nworkers);
    auto spawn = [&](Worker& w, long start) {
        int fds[2];
        if (pipe(fds) != 0)
        {
            std::perror("pipe");
            std::exit(2);
        }
        fflush(nullptr);
        pid_t pid = fork();
        if (pid == 0)
        {
            close(fds[0]);
            for (auto& o : workers)
                if (o.fd >= 0)
                    close(o.fd);
            std::string errfile = runlog + "/worker-" + std::to_string(w.slot) + ".err";
            int efd = open(errfile.c_str(), O_WRONLY | O_CREAT | O_TRUNC, 0644);
            if (efd >= 0)
            {
                dup2(efd, 2);
                close(efd);
            }
            worker_loop(*world, spec, start, nworkers, runs, fds[1], t0, budget_s, opt.repeat);
            close(fds[1]);
            _exit(0);
        }
        close(fds[1]);
        w.pid = pid;
        w.fd = fds[0];
        w.buf.clear();
        w.current = -1;
        w.done = false;
        w.started = Clock::now();
    };
    for (int i = 0; i < nworkers; ++i)
    {
        workers[i].slot = i;
        spawn(workers[i], i);
    }

    // Aggregation
    long evaluations = 0;
    long plans_run = 0;
    std::set<std::uint64_t> shapes;
    json stats = json::object();
    std::vector<json> samples;
    struct Cand
    {
        long index;
        Violation v;
    };
    std::vector<Cand> cands;
    long mismatches = 0;
    long other_property_violations = 0;
    std::uint64_t aggregate_hash = 0;  // order independent: sum of mix(index, hash)

    auto handle_result = [&](long idx, json const& j) {
        RunResult r = result_from_json(j);
        evaluations += r.weight;
        ++plans_run;
        aggregate_hash += mix64(mix64(static_cast<std::uint64_t>(idx) + 1) ^ r.hash);
        if (r.nontrivial)
            shapes.insert(r.shape);
        for (auto x : r.extra_shapes)
            shapes.insert(x);
        merge_stats(stats, r.stats);
        if (samples.size() < 3 && !r.sample.is_null())
        {
            json s = r.sample;
            s["run_index"] = idx;
            samples.push_back(std::move(s));
        }
        if (j.contains("hash2") && j["hash2"].get<std::uint64_t>() != r.hash)
        {
            ++mismatches;
            Violation v{opt.property,
                        "nondeterminism",
                        "nondeterminism",
                        "same plan executed twice in one process gave different history hashes"};
            cands.push_back({idx, v});
        }
        for (auto const& v : r.violations)
        {
            if (v.property == opt.property)
                cands.push_back({idx, v});
            else
                ++other_property_violations;
        }
    };

    int alive = nworkers;
    while (alive > 0)
    {
        std::vector<struct pollfd> pfds;
        std::vector<int> map;
        for (int i = 0; i < nworkers; ++i)
        {
            if (workers[i].fd >= 0)
            {
                pfds.push_back({workers[i].fd, POLLIN, 0});
                map.push_back(i);
            }
        }
        int rc = poll(pfds.data(), pfds.size(), 500);
        (void)rc;
        for (std::size_t k = 0; k < pfds.size(); ++k)
        {
            Worker& w = workers[map[k]];
            bool eof = false;
            if (pfds[k].revents & (POLLIN | POLLHUP))
            {
                char buf[1 << 16];
                ssize_t n = read(w.fd, buf, sizeof(buf));
                if (n > 0)
                    w.buf.append(buf, n);
                else
                    eof = true;
            }
            // parse complete lines
            std::size_t pos;
            while ((pos = w.buf.find('\n')) != std::string::npos)
            {
                std::string line = w.buf.substr(0, pos);
                w.buf.erase(0, pos + 1);
                if (line.empty())
                    continue;
                if (line[0] == 'S')
                {
                    w.current = std::stol(line.substr(2));
                    w.started = Clock::now();
                }
                else if (line[0] == 'R')
                {
                    auto sp = line.find(' ', 2);
                    long idx = std::stol(line.substr(2, sp - 2));
                    try
                    {
                        handle_result(idx, json::parse(line.substr(sp + 1)));
                    }
                    catch (std::exception const& e)
                    {
                        std::cerr << "bad result line from worker: " << e.what() << "\n";
                    }
                    w.next_start = idx + nworkers;
                    w.current = -1;
                }
                else if (line[0] == 'D')
                {
                    w.done = true;
                }
            }
            bool hung = (w.current >= 0 && elapsed_s(w.started) > run_timeout);
            if (hung)
            {
                kill(w.pid, SIGKILL);
                eof = true;
            }
            if (eof)
            {
                int status = 0;
                waitpid(w.pid, &status, 0);
                close(w.fd);
                w.fd = -1;
                if (!w.done && w.current >= 0)
                {
                    // died in the middle of a run
                    std::string klass = hung ? "hang" : status_to_class(status);
                    std::string tail = tail_of_file(
                        runlog + "/worker-" + std::to_string(w.slot) + ".err", 200000);
                    ++evaluations;
                    cands.push_back({w.current,
                                     Violation{opt.property,
                                               klass,
                                               crash_fingerprint(klass, tail),
                                               "worker died executing run: "
                                                   + (tail.size() > 3000 ? tail.substr(0, 3000)
                                                                         : tail)}});
                    long next = w.current + nworkers;
                    if (next < runs && (budget_s <= 0 || elapsed_s(t0) < budget_s))
                    {
                        spawn(w, next);
                        continue;
                    }
                }
                else if (!w.done)
                {
                    std::cerr << "worker " << w.slot << " exited unexpectedly ("
                              << status_to_class(status) << ")\n";
                }
                --alive;
            }
        }
    }
    double search_s = elapsed_s(t0);

    // ---- classify candidates ------------------------------------------------
    int exit_code = 0;
    int n_violations = 0;
    std::vector<std::string> known_lines;
    std::set<std::string> handled_fp;
    json reported = json::array();
    for (auto const& c : cands)
    {
        if (auto* k = known.match(c.v))
        {
            std::string line = "KNOWN-FINDING: property=" + c.v.property + " " + k->what;
            if (std::find(known_lines.begin(), known_lines.end(), line) == known_lines.end())
                known_lines.push_back(line);
            continue;
        }
        std::string key = c.v.klass + "|" + c.v.fingerprint;
        if (handled_fp.count(key) || handled_fp.size() >= 4)
            continue;
        handled_fp.insert(key);

        // Reproduce: regenerate the plan and execute it twice in fresh processes
        json plan = world->make_plan(spec, c.index);
        std::string base = logdir + "/" + opt.property + "-seed" + std::to_string(opt.seed)
                           + "-run" + std::to_string(c.index) + "-"
                           + std::to_string(fnv1a(key.data(), key.size()) % 100000);
        std::string cand_file = base + ".cand.json";
        {
            std::ofstream o(cand_file);
            o << json{{"plan", plan}}.dump(1) << "\n";
        }
        auto a = run_plan_fresh(cand_file, opt.property, runlog, run_timeout);
        auto b = run_plan_fresh(cand_file, opt.property, runlog, run_timeout);
        bool repro = has_violation(a.result, c.v.property, c.v.klass)
                     && has_violation(b.result, c.v.property, c.v.klass)
                     && (a.ok == b.ok) && (!a.ok || a.result.hash == b.result.hash);
        if (c.v.klass == "nondeterminism")
        {
            std::cout << "HARNESS-FAULT nondeterministic execution at run " << c.index
                      << " (plan " << cand_file << ")\n";
            exit_code = 2;
            continue;
        }
        if (!repro && c.v.klass == "hang" && a.ok && b.ok)
        {
            // The wall-clock limit of a run is the one thing the simulator does
            // not own: a plan that exceeded it once but completes, twice, in
            // fresh processes was slowed down by machine load.  Not a violation
            // and not a harness fault; reported for the record.
            std::cout << "note: run " << c.index
                      << " exceeded the per-run wall-clock limit once and completed on two "
                         "fresh re-executions (machine load); not counted\n";
            std::remove(cand_file.c_str());
            continue;
        }
        if (!repro)
        {
            std::cout << "HARNESS-FAULT candidate violation did not reproduce in fresh "
                         "processes: property="
                      << c.v.property << " class=" << c.v.klass << " run=" << c.index
                      << " plan=" << cand_file << "\n  " << c.v.message << "\n";
            exit_code = std::max(exit_code, 2);
            continue;
        }

        // Minimise (greedy over shrink candidates) keeping property + class
        json best = plan;
        int tries = 0, accepted = 0;
        auto tmin = Clock::now();
        bool progress = true;
        int max_tries = c.v.klass.rfind("crash", 0) == 0 || c.v.klass == "hang" ? opt.shrink_tries / 10
                                                                              : opt.shrink_tries;
        while (progress && tries < max_tries && elapsed_s(tmin) < opt.shrink_budget_s)
        {
            progress = false;
            for (auto const& cand : world->shrink(best))
            {
                if (tries >= max_tries || elapsed_s(tmin) > opt.shrink_budget_s)
                    break;
                ++tries;
                auto o = run_plan_forked(*world, cand, opt.property, runlog, run_timeout);
                if (has_violation(o.result, c.v.property, c.v.klass))
                {
                    best = cand;
                    ++accepted;
                    progress = true;
                    break;
                }
            }
        }
        std::string replay_file = base + ".replay.json";
        {
            json doc;
            doc["plan"] = best;
            doc["expect"] = {{"property", c.v.property},
                             {"class", c.v.klass},
                             {"fingerprint", c.v.fingerprint}};
            doc["found"] = {{"seed", opt.seed},
                            {"run_index", c.index},
                            {"tier", opt.tier},
                            {"shrink_tries", tries},
                            {"shrink_accepted", accepted}};
            std::ofstream o(replay_file);
            o << doc.dump(1) << "\n";
        }
        auto fin = run_plan_fresh(replay_file, opt.property, runlog, run_timeout);
        Violation const* fv = find_violation(fin.result, c.v.property, c.v.klass);
        if (!fv)
        {
            // minimised plan does not replay: fall back to the original plan
            json doc;
            doc["plan"] = plan;
            doc["expect"] = {{"property", c.v.property},
                             {"class", c.v.klass},
                             {"fingerprint", c.v.fingerprint}};
            std::ofstream o(replay_file);
            o << doc.dump(1) << "\n";
            fin = a;
            fv = find_violation(fin.result, c.v.property, c.v.klass);
        }
        // A violation that matches a known finding after minimisation
        if (fv && known.match(*fv))
        {
            auto* k = known.match(*fv);
            std::string line = "KNOWN-FINDING: property=" + fv->property + " " + k->what;
            if (std::find(known_lines.begin(), known_lines.end(), line) == known_lines.end())
                known_lines.push_back(line);
            continue;
        }
        std::remove(cand_file.c_str());
        ++n_violations;
        exit_code = std::max(exit_code, 1);
        std::cout << "violation: property=" << c.v.property << " class=" << c.v.klass
                  << " fingerprint=" << c.v.fingerprint << " seed=" << opt.seed
                  << " run=" << c.index << " shrink=" << accepted << "/" << tries << "\n  "
                  << (fv ? fv->message : c.v.message) << "\n";
        std::cout << "VIOLATION property=" << c.v.property << " replay=" << replay_file
                  << std::endl;
        reported.push_back({{"class", c.v.klass},
                            {"fingerprint", c.v.fingerprint},
                            {"replay", replay_file},
                            {"message", fv ? fv->message : c.v.message}});
    }
    for (auto const& l : known_lines)
        std::cout << l << std::endl;

    // ---- evidence -----------------------------------------------------------
    double wall = elapsed_s(t0);
    json desc = world->describe(spec);
    json ev;
    ev["property_id"] = opt.property;
    ev["tier"] = opt.tier;
    ev["seed"] = opt.seed;
    ev["level"] = desc.value("level", "exploration");
    json cov;
    cov["evaluations"] = evaluations;
    cov["distinct_nontrivial"] = static_cast<long>(shapes.size());
    cov["rule"] = desc.value("rule", "");
    cov["samples"] = samples;
    cov["world"] = world->name();
    cov["runs_requested"] = runs;
    cov["plans_run"] = plans_run;
    cov["runs_per_hour"] = search_s > 0 ? evaluations * 3600.0 / search_s : 0.0;
    cov["search_wall_s"] = search_s;
    cov["workers"] = nworkers;
    cov["flavor"] = VERIF_FLAVOR;
    for (auto it2 = stats.begin(); it2 != stats.end(); ++it2)
        cov[it2.key()] = *it2;
    if (desc.contains("components"))
        cov["components"] = desc["components"];
    if (desc.contains("oracles"))
        cov["oracles"] = desc["oracles"];
    if (opt.repeat > 1)
        cov["determinism_check"] = {{"plans_run_twice", evaluations}, {"mismatches", mismatches}};
    {
        char buf[32];
        std::snprintf(buf, sizeof(buf), "%016llx", static_cast<unsigned long long>(aggregate_hash));
        cov["aggregate_history_hash"] = buf;
    }
    cov["violations_of_other_properties_seen"] = other_property_violations;
    cov["known_findings"] = known_lines;
    cov["reported"] = reported;
    ev["coverage"] = cov;
    ev["assumptions"] = desc.value("assumptions", json::array());
    ev["wall_s"] = wall;
    ev["violations"] = n_violations;
    if (!opt.evidence.empty())
    {
        std::string tmp = opt.evidence + ".tmp";
        {
            std::ofstream o(tmp);
            o << ev.dump(1) << "\n";
        }
        std::rename(tmp.c_str(), opt.evidence.c_str());
    }
    std::printf(
        "done property=%s evaluations=%ld distinct_nontrivial=%zu violations=%d "
        "known=%zu wall=%.1fs\n",
        opt.property.c_str(),
        evaluations,
        shapes.size(),
        n_violations,
        known_lines.size(),
        wall);
    if (evaluations == 0)
    {
        std::cout << "HARNESS-FAULT no runs executed\n";
        exit_code = std::max(exit_code, 2);
    }
    return exit_code;
}

}  // namespace vsim
