#include <iostream>
#include "corecel/sys/VerifHook.hh"
int main() { std::cout << "vsim placeholder " << (void*)celeritas::verif::g_yield_hook << "\n"; return 0; }
