// vsim: deterministic simulation with fault injection for celeritas
#include <cstdlib>
#include <cstring>
#include <iostream>
#include <string>

#include "corecel/io/Logger.hh"
#include "core/Driver.hh"
namespace vsim { int cmd_vet_geo(std::string const& file); }

// Sanitizer defaults: classify sanitizer hits by exit code, no leak checking
extern "C" __attribute__((used, visibility("default"))) char const* __asan_default_options()
{
    return "exitcode=77:detect_leaks=0:abort_on_error=0:allocator_may_return_null=1";
}
extern "C" __attribute__((used, visibility("default"))) char const* __ubsan_default_options()
{
    return "print_stacktrace=1:halt_on_error=1:exitcode=77";
}
extern "C" __attribute__((used, visibility("default"))) char const* __tsan_default_options()
{
    return "exitcode=77:halt_on_error=1:second_deadlock_stack=1:report_signal_unsafe=0";
}

static void usage()
{
    std::cerr << "usage: vsim run --property Cnn [--tier quick|thorough] [--seed N] [--runs N]\n"
                 "                [--budget-s S] [--workers W] [--evidence FILE] [--repeat 2]\n"
                 "       vsim replay FILE | exec FILE | plan --property Cnn --seed N --index I\n";
}

int main(int argc, char** argv)
{
    using namespace vsim;
    if (argc < 2)
    {
        usage();
        return 2;
    }
    // Quiet the library's loggers unless asked otherwise
    if (!std::getenv("VSIM_VERBOSE"))
    {
        celeritas::world_logger().level(celeritas::LogLevel::critical);
        celeritas::self_logger().level(celeritas::LogLevel::critical);
    }
    std::string cmd = argv[1];
    Options opt;
    if (char const* s = std::getenv("VERIF_SEED"))
        opt.seed = std::strtoull(s, nullptr, 10);
    if (char const* s = std::getenv("VERIF_TIER"))
        opt.tier = s;
    if (char const* s = std::getenv("VERIF_DIR"))
        opt.verif_dir = s;
    if (char const* s = std::getenv("VERIF_WORKERS"))
        opt.workers = std::atoi(s);
    std::uint64_t index = 0;
    std::string file;
    for (int i = 2; i < argc; ++i)
    {
        std::string a = argv[i];
        auto next = [&]() -> std::string {
            if (i + 1 >= argc)
            {
                usage();
                std::exit(2);
            }
            return argv[++i];
        };
        if (a == "--property")
            opt.property = next();
        else if (a == "--tier")
            opt.tier = next();
        else if (a == "--seed")
            opt.seed = std::strtoull(next().c_str(), nullptr, 10);
        else if (a == "--runs")
            opt.runs = std::atol(next().c_str());
        else if (a == "--budget-s")
            opt.budget_s = std::atof(next().c_str());
        else if (a == "--run-timeout-s")
            opt.run_timeout_s = std::atof(next().c_str());
        else if (a == "--workers")
            opt.workers = std::atoi(next().c_str());
        else if (a == "--repeat")
            opt.repeat = std::atoi(next().c_str());
        else if (a == "--evidence")
            opt.evidence = next();
        else if (a == "--verif-dir")
            opt.verif_dir = next();
        else if (a == "--index")
            index = std::strtoull(next().c_str(), nullptr, 10);
        else if (a == "--shrink-tries")
            opt.shrink_tries = std::atoi(next().c_str());
        else if (a[0] != '-')
            file = a;
        else
        {
            usage();
            return 2;
        }
    }
    if (cmd == "run")
        return cmd_run(opt);
    if (cmd == "exec")
        return cmd_exec(file);
    if (cmd == "replay")
        return cmd_replay(file, opt);
    if (cmd == "plan")
        return cmd_plan(opt, index);
    if (cmd == "vet-geo")
        return vsim::cmd_vet_geo(file);
    usage();
    return 2;
}
