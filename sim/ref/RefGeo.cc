#include "RefGeo.hh"

#include <algorithm>
#include <cmath>
#include <sstream>
#include <type_traits>
#include <variant>

#include "orange/OrangeInput.hh"
#include "orange/OrangeTypes.hh"
#include "orange/surf/VariantSurface.hh"
#include "orange/transform/VariantTransform.hh"

using namespace celeritas;

namespace vsim
{
//---------------------------------------------------------------------------//
ld Quadric::eval(ld const x[3]) const
{
    return a * x[0] * x[0] + b * x[1] * x[1] + c * x[2] * x[2] + d * x[0] * x[1]
           + e * x[1] * x[2] + f * x[2] * x[0] + g * x[0] + h * x[1] + i * x[2] + j;
}

void Quadric::grad(ld const x[3], ld out[3]) const
{
    out[0] = 2 * a * x[0] + d * x[1] + f * x[2] + g;
    out[1] = 2 * b * x[1] + d * x[0] + e * x[2] + h;
    out[2] = 2 * c * x[2] + e * x[1] + f * x[0] + i;
}

ld Quadric::distance_estimate(ld const x[3]) const
{
    ld gr[3];
    grad(x, gr);
    ld gn = std::sqrt(gr[0] * gr[0] + gr[1] * gr[1] + gr[2] * gr[2]);
    ld v = std::fabs(eval(x));
    if (is_plane)
        return v / gn;
    // For a true quadric |f|/|grad f| is first order; close to the centre /
    // apex the gradient vanishes: fall back to sqrt scale
    ld second = std::fabs(a) + std::fabs(b) + std::fabs(c) + std::fabs(d) + std::fabs(e)
                + std::fabs(f);
    ld est1 = gn > 0 ? v / gn : std::numeric_limits<ld>::infinity();
    ld est2 = second > 0 ? std::sqrt(v / second) : est1;
    return std::min(est1, est2);
}

std::string RefPath::str() const
{
    std::ostringstream os;
    os << (valid ? "" : "!") << "[";
    for (auto const& p : lv)
        os << "(" << p.first << ":" << p.second << ")";
    os << "]";
    return os.str();
}

//---------------------------------------------------------------------------//
namespace
{
int ax(Axis a)
{
    return static_cast<int>(a);
}

template<class S>
bool to_quadric(S const& s, Quadric& q)
{
    using T = std::decay_t<S>;
    ld* sec[3] = {&q.a, &q.b, &q.c};
    ld* fir[3] = {&q.g, &q.h, &q.i};
    if constexpr (std::is_same_v<T, PlaneAligned<Axis::x>> || std::is_same_v<T, PlaneAligned<Axis::y>>
                  || std::is_same_v<T, PlaneAligned<Axis::z>>)
    {
        // x_T - position = 0
        Real3 n = s.calc_normal();
        int t = n[0] != 0 ? 0 : (n[1] != 0 ? 1 : 2);
        *fir[t] = 1;
        q.j = -static_cast<ld>(s.position());
        q.is_plane = true;
        return true;
    }
    else if constexpr (std::is_same_v<T, Plane>)
    {
        // n . x - d = 0
        q.g = s.normal()[0];
        q.h = s.normal()[1];
        q.i = s.normal()[2];
        q.j = -static_cast<ld>(s.displacement());
        q.is_plane = true;
        return true;
    }
    else if constexpr (std::is_same_v<T, CylCentered<Axis::x>> || std::is_same_v<T, CylCentered<Axis::y>>
                       || std::is_same_v<T, CylCentered<Axis::z>>)
    {
        // u^2 + v^2 - R^2 = 0
        *sec[ax(T::u_axis())] = 1;
        *sec[ax(T::v_axis())] = 1;
        q.j = -static_cast<ld>(s.radius_sq());
        return true;
    }
    else if constexpr (std::is_same_v<T, CylAligned<Axis::x>> || std::is_same_v<T, CylAligned<Axis::y>>
                       || std::is_same_v<T, CylAligned<Axis::z>>)
    {
        // (u-u0)^2 + (v-v0)^2 - R^2 = 0
        ld u0 = s.origin_u(), v0 = s.origin_v();
        *sec[ax(T::u_axis())] = 1;
        *sec[ax(T::v_axis())] = 1;
        *fir[ax(T::u_axis())] = -2 * u0;
        *fir[ax(T::v_axis())] = -2 * v0;
        q.j = u0 * u0 + v0 * v0 - static_cast<ld>(s.radius_sq());
        return true;
    }
    else if constexpr (std::is_same_v<T, SphereCentered>)
    {
        q.a = q.b = q.c = 1;
        q.j = -static_cast<ld>(s.radius_sq());
        return true;
    }
    else if constexpr (std::is_same_v<T, Sphere>)
    {
        ld o[3] = {s.origin()[0], s.origin()[1], s.origin()[2]};
        q.a = q.b = q.c = 1;
        q.g = -2 * o[0];
        q.h = -2 * o[1];
        q.i = -2 * o[2];
        q.j = o[0] * o[0] + o[1] * o[1] + o[2] * o[2] - static_cast<ld>(s.radius_sq());
        return true;
    }
    else if constexpr (std::is_same_v<T, ConeAligned<Axis::x>> || std::is_same_v<T, ConeAligned<Axis::y>>
                       || std::is_same_v<T, ConeAligned<Axis::z>>)
    {
        // (u-u0)^2 + (v-v0)^2 - t^2 (w-w0)^2 = 0
        ld o[3] = {s.origin()[0], s.origin()[1], s.origin()[2]};
        ld tsq = s.tangent_sq();
        int t = ax(T::t_axis()), u = ax(T::u_axis()), v = ax(T::v_axis());
        *sec[u] = 1;
        *sec[v] = 1;
        *sec[t] = -tsq;
        *fir[u] = -2 * o[u];
        *fir[v] = -2 * o[v];
        *fir[t] = 2 * tsq * o[t];
        q.j = o[u] * o[u] + o[v] * o[v] - tsq * o[t] * o[t];
        return true;
    }
    else if constexpr (std::is_same_v<T, SimpleQuadric>)
    {
        q.a = s.second()[0];
        q.b = s.second()[1];
        q.c = s.second()[2];
        q.g = s.first()[0];
        q.h = s.first()[1];
        q.i = s.first()[2];
        q.j = s.zeroth();
        return true;
    }
    else if constexpr (std::is_same_v<T, GeneralQuadric>)
    {
        q.a = s.second()[0];
        q.b = s.second()[1];
        q.c = s.second()[2];
        q.d = s.cross()[0];
        q.e = s.cross()[1];
        q.f = s.cross()[2];
        q.g = s.first()[0];
        q.h = s.first()[1];
        q.i = s.first()[2];
        q.j = s.zeroth();
        return true;
    }
    else
    {
        return false;  // involute etc.
    }
}

RefDaughter make_daughter(DaughterInput const& di)
{
    RefDaughter d;
    d.universe = di.universe_id.get();
    std::visit(
        [&d](auto const& tr) {
            using T = std::decay_t<decltype(tr)>;
            if constexpr (std::is_same_v<T, Translation>)
            {
                for (int k = 0; k < 3; ++k)
                    d.t[k] = tr.translation()[k];
            }
            else if constexpr (std::is_same_v<T, Transformation>)
            {
                for (int r = 0; r < 3; ++r)
                {
                    d.t[r] = tr.translation()[r];
                    for (int c = 0; c < 3; ++c)
                    {
                        d.R[r][c] = tr.rotation()[r][c];
                        if (std::fabs(d.R[r][c] - (r == c ? 1.0L : 0.0L)) > 1e-12L)
                            d.rotated = true;
                    }
                }
            }
        },
        di.transform);
    return d;
}

void to_local(RefDaughter const& d, ld const x[3], ld out[3])
{
    ld y[3] = {x[0] - d.t[0], x[1] - d.t[1], x[2] - d.t[2]};
    for (int c = 0; c < 3; ++c)
        out[c] = d.R[0][c] * y[0] + d.R[1][c] * y[1] + d.R[2][c] * y[2];  // R^T y
}

void rot_to_local(RefDaughter const& d, ld const v[3], ld out[3])
{
    for (int c = 0; c < 3; ++c)
        out[c] = d.R[0][c] * v[0] + d.R[1][c] * v[1] + d.R[2][c] * v[2];
}

bool eval_logic(std::vector<std::uint64_t> const& logic,
                std::vector<int> const& faces,
                std::vector<Quadric> const& surfs,
                ld const x[3])
{
    std::vector<bool> st;
    for (auto tok : logic)
    {
        if (tok == logic::ltrue)
            st.push_back(true);
        else if (tok == logic::lnot)
        {
            bool v = st.back();
            st.back() = !v;
        }
        else if (tok == logic::land || tok == logic::lor)
        {
            bool r = st.back();
            st.pop_back();
            bool l = st.back();
            st.back() = (tok == logic::land) ? (l && r) : (l || r);
        }
        else
        {
            // operand: index into this volume's face list; true = "outside" (f > 0)
            int sid = faces.at(tok);
            st.push_back(surfs[sid].eval(x) > 0);
        }
    }
    return st.size() == 1 ? st.back() : false;
}
}  // namespace

//---------------------------------------------------------------------------//
RefGeo::RefGeo(OrangeInput const& inp)
{
    tol_abs_ = inp.tol.abs;
    tol_rel_ = inp.tol.rel;
    std::uint32_t offset = 0;
    for (auto const& vu : inp.universes)
    {
        RefUniverse u;
        u.vol_offset = offset;
        if (auto const* ui = std::get_if<UnitInput>(&vu))
        {
            for (auto const& vs : ui->surfaces)
            {
                Quadric q;
                bool ok = std::visit([&q](auto const& s) { return to_quadric(s, q); }, vs);
                if (!ok)
                {
                    supported_ = false;
                    why_ = "unsupported surface type (involute)";
                }
                u.surfs.push_back(q);
            }
            int vi = 0;
            for (auto const& v : ui->volumes)
            {
                RefVolume rv;
                for (auto f : v.faces)
                    rv.faces.push_back(f.get());
                for (auto l : v.logic)
                    rv.logic.push_back(l);
                rv.flags = v.flags;
                rv.implicit = (v.flags & VolumeRecord::implicit_vol) != 0;
                rv.background = v.zorder == ZOrder::background;
                rv.label = v.label.name;
                auto it = ui->daughter_map.find(LocalVolumeId(vi));
                if (it != ui->daughter_map.end())
                {
                    rv.daughter = u.daughters.size();
                    u.daughters.push_back(make_daughter(it->second));
                }
                if (rv.background)
                    u.background = vi;
                u.vols.push_back(std::move(rv));
                ++vi;
            }
            u.nvols = u.vols.size();
        }
        else
        {
            auto const& ai = std::get<RectArrayInput>(vu);
            u.is_array = true;
            for (int k = 0; k < 3; ++k)
                u.grid[k] = ai.grid[k];
            for (auto const& d : ai.daughters)
                u.daughters.push_back(make_daughter(d));
            u.nvols = u.daughters.size();
        }
        offset += u.nvols;
        univ_.push_back(std::move(u));
    }
    nvols_ = offset;
}

//---------------------------------------------------------------------------//
int RefGeo::locate_in(int ui, ld const x[3], int* overlaps) const
{
    RefUniverse const& u = univ_[ui];
    if (u.is_array)
    {
        std::size_t idx[3];
        for (int k = 0; k < 3; ++k)
        {
            auto const& g = u.grid[k];
            if (x[k] < g.front() || x[k] >= g.back())
                return -1;
            auto it = std::upper_bound(g.begin(), g.end(), static_cast<double>(x[k]));
            // guard for long double vs double comparison at knots
            std::size_t i = (it - g.begin());
            while (i > 0 && x[k] < g[i - 1])
                --i;
            while (i < g.size() && x[k] >= g[i])
                ++i;
            idx[k] = i - 1;
        }
        std::size_t ny = u.grid[1].size() - 1, nz = u.grid[2].size() - 1;
        return static_cast<int>((idx[0] * ny + idx[1]) * nz + idx[2]);
    }
    int found = -1, n = 0;
    for (std::size_t v = 0; v < u.vols.size(); ++v)
    {
        auto const& vol = u.vols[v];
        if (vol.implicit && vol.background)
            continue;
        if (vol.logic.empty())
            continue;
        if (eval_logic(vol.logic, vol.faces, u.surfs, x))
        {
            if (n == 0)
                found = v;
            ++n;
        }
    }
    if (n > 1 && overlaps)
        *overlaps += n - 1;
    if (n == 0)
        return u.background;  // may be -1
    return found;
}

RefPath RefGeo::locate(ld const pos[3]) const
{
    RefPath p;
    ld x[3] = {pos[0], pos[1], pos[2]};
    int u = 0;
    p.valid = true;
    for (int depth = 0; depth < 64; ++depth)
    {
        int ov = 0;
        int v = locate_in(u, x, &ov);
        p.overlaps += ov;
        if (v < 0)
        {
            p.valid = false;
            p.lv.push_back({u, -1});
            break;
        }
        if (ov)
            p.valid = false;
        p.lv.push_back({u, v});
        RefUniverse const& un = univ_[u];
        int di = un.is_array ? v : un.vols[v].daughter;
        if (di < 0)
        {
            p.leaf = un.vol_offset + v;
            break;
        }
        RefDaughter const& d = un.daughters[di];
        ld y[3];
        to_local(d, x, y);
        for (int k = 0; k < 3; ++k)
            x[k] = y[k];
        u = d.universe;
    }
    p.outside = !p.lv.empty() && p.lv[0].first == 0 && p.lv[0].second == 0;
    return p;
}

//---------------------------------------------------------------------------//
ld RefGeo::clearance(ld const pos[3], RefPath const& path) const
{
    ld best = std::numeric_limits<ld>::infinity();
    ld x[3] = {pos[0], pos[1], pos[2]};
    for (std::size_t L = 0; L < path.lv.size(); ++L)
    {
        RefUniverse const& u = univ_[path.lv[L].first];
        if (u.is_array)
        {
            for (int k = 0; k < 3; ++k)
                for (double g : u.grid[k])
                    best = std::min(best, std::fabs(x[k] - static_cast<ld>(g)));
        }
        else
        {
            for (auto const& q : u.surfs)
                best = std::min(best, q.distance_estimate(x));
        }
        int v = path.lv[L].second;
        if (v < 0)
            break;
        int di = u.is_array ? v : u.vols[v].daughter;
        if (di < 0)
            break;
        ld y[3];
        to_local(u.daughters[di], x, y);
        for (int k = 0; k < 3; ++k)
            x[k] = y[k];
    }
    return best;
}

//---------------------------------------------------------------------------//
void RefGeo::collect_roots(ld const pos[3],
                           ld const dir[3],
                           RefPath const& cur,
                           std::vector<Root>& out) const
{
    ld x[3] = {pos[0], pos[1], pos[2]};
    ld w[3] = {dir[0], dir[1], dir[2]};
    for (std::size_t L = 0; L < cur.lv.size(); ++L)
    {
        RefUniverse const& u = univ_[cur.lv[L].first];
        auto add_quadric = [&](Quadric const& q) {
            // f(x + t w) = A t^2 + B t + C
            ld gr[3];
            q.grad(x, gr);
            ld A = q.a * w[0] * w[0] + q.b * w[1] * w[1] + q.c * w[2] * w[2]
                   + q.d * w[0] * w[1] + q.e * w[1] * w[2] + q.f * w[2] * w[0];
            ld B = gr[0] * w[0] + gr[1] * w[1] + gr[2] * w[2];
            ld C = q.eval(x);
            ld scale = std::fabs(A) + std::fabs(B) + std::fabs(C);
            if (scale == 0)
                return;
            auto push = [&](ld t) {
                if (!(t > 0) || !std::isfinite(static_cast<double>(t)))
                    return;
                // grazing: |grad . w| / |grad| at the root
                ld y[3] = {x[0] + t * w[0], x[1] + t * w[1], x[2] + t * w[2]};
                ld g2[3];
                q.grad(y, g2);
                ld gn = std::sqrt(g2[0] * g2[0] + g2[1] * g2[1] + g2[2] * g2[2]);
                ld cosang = gn > 0 ? std::fabs(g2[0] * w[0] + g2[1] * w[1] + g2[2] * w[2]) / gn
                                   : 0;
                out.push_back({t, static_cast<int>(L), cosang < 1e-3L});
            };
            if (std::fabs(A) <= 1e-14L * scale || q.is_plane)
            {
                if (std::fabs(B) > 1e-14L * scale)
                    push(-C / B);
                return;
            }
            ld disc = B * B - 4 * A * C;
            if (disc < 0)
            {
                // a near miss is a grazing candidate: record it as such
                if (-disc < 1e-10L * (B * B + std::fabs(4 * A * C)))
                    out.push_back({-B / (2 * A), static_cast<int>(L), true});
                return;
            }
            ld sq = std::sqrt(disc);
            ld qq = -0.5L * (B + (B >= 0 ? sq : -sq));
            ld t1 = qq / A;
            ld t2 = qq != 0 ? C / qq : t1;
            push(t1);
            if (t2 != t1)
                push(t2);
        };
        if (u.is_array)
        {
            for (int k = 0; k < 3; ++k)
                for (double g : u.grid[k])
                {
                    Quadric q;
                    q.is_plane = true;
                    (k == 0 ? q.g : k == 1 ? q.h : q.i) = 1;
                    q.j = -static_cast<ld>(g);
                    add_quadric(q);
                }
        }
        else
        {
            for (auto const& q : u.surfs)
                add_quadric(q);
        }
        int v = cur.lv[L].second;
        if (v < 0)
            break;
        int di = u.is_array ? v : u.vols[v].daughter;
        if (di < 0)
            break;
        RefDaughter const& d = u.daughters[di];
        ld y[3], wd[3];
        to_local(d, x, y);
        rot_to_local(d, w, wd);
        for (int k = 0; k < 3; ++k)
        {
            x[k] = y[k];
            w[k] = wd[k];
        }
    }
    std::sort(out.begin(), out.end(), [](Root const& a, Root const& b) { return a.t < b.t; });
}

int RefGeo::surface_level_at(ld const pos[3], RefPath const& path, ld eps, bool* rotated_below) const
{
    ld x[3] = {pos[0], pos[1], pos[2]};
    int found = -1;
    if (rotated_below)
        *rotated_below = false;
    for (std::size_t L = 0; L < path.lv.size(); ++L)
    {
        RefUniverse const& u = univ_[path.lv[L].first];
        if (found < 0)
        {
            if (u.is_array)
            {
                for (int k = 0; k < 3; ++k)
                    for (double g : u.grid[k])
                        if (std::fabs(x[k] - static_cast<ld>(g)) < eps)
                            found = L;
            }
            else
            {
                for (auto const& q : u.surfs)
                    if (q.distance_estimate(x) < eps)
                        found = L;
            }
        }
        int v = path.lv[L].second;
        if (v < 0)
            break;
        int di = u.is_array ? v : u.vols[v].daughter;
        if (di < 0)
            break;
        if (found >= 0 && u.daughters[di].rotated && rotated_below)
            *rotated_below = true;
        ld y[3];
        to_local(u.daughters[di], x, y);
        for (int k = 0; k < 3; ++k)
            x[k] = y[k];
    }
    return found;
}

int RefGeo::surfaces_near(ld const pos[3], RefPath const& path, ld eps) const
{
    ld x[3] = {pos[0], pos[1], pos[2]};
    int n = 0;
    for (std::size_t L = 0; L < path.lv.size(); ++L)
    {
        RefUniverse const& u = univ_[path.lv[L].first];
        if (u.is_array)
        {
            for (int k = 0; k < 3; ++k)
                for (double g : u.grid[k])
                    if (std::fabs(x[k] - static_cast<ld>(g)) < eps)
                        ++n;
        }
        else
        {
            for (auto const& q : u.surfs)
                if (q.distance_estimate(x) < eps)
                    ++n;
        }
        int v = path.lv[L].second;
        if (v < 0)
            break;
        int di = u.is_array ? v : u.vols[v].daughter;
        if (di < 0)
            break;
        ld y[3];
        to_local(u.daughters[di], x, y);
        for (int k = 0; k < 3; ++k)
            x[k] = y[k];
    }
    return n;
}

ld RefGeo::nearest_root(ld const pos[3], ld const dir[3], RefPath const& cur) const
{
    std::vector<Root> roots;
    collect_roots(pos, dir, cur, roots);
    for (auto const& r : roots)
        if (r.t > 0)
            return r.t;
    return std::numeric_limits<ld>::infinity();
}

RefCross RefGeo::next_crossing(ld const pos[3], ld const dir[3], RefPath const& cur, ld gap) const
{
    RefCross rc;
    std::vector<Root> roots;
    collect_roots(pos, dir, cur, roots);
    bool dirty = false;
    std::string why;
    for (std::size_t k = 0; k < roots.size(); ++k)
    {
        ld t = roots[k].t;
        ld tnext = (k + 1 < roots.size()) ? roots[k + 1].t : t + 4 * gap + 1;
        // identical (duplicate) roots: treat the cluster as one candidate
        if (tnext - t < gap)
        {
            if (k + 1 < roots.size())
            {
                // cluster of nearby roots: judge at its end, mark unclean
                dirty = true;
                why = "roots closer than gap";
                continue;
            }
        }
        if (roots[k].grazing)
        {
            dirty = true;
            why = "grazing incidence";
        }
        ld tm = t + std::min<ld>((tnext - t) / 2, 0.5L + gap);
        ld y[3] = {pos[0] + tm * dir[0], pos[1] + tm * dir[1], pos[2] + tm * dir[2]};
        RefPath p = locate(y);
        if (p != cur)
        {
            rc.found = true;
            rc.dist = t;
            rc.after = p;
            rc.level = roots[k].level;
            bool tprev_ok = (k == 0 ? t : t - roots[k - 1].t) >= gap;
            rc.clean = !dirty && p.valid && cur.valid && tprev_ok && (tnext - t) >= gap;
            if (!rc.clean && why.empty())
                why = !p.valid ? "destination not uniquely located" : "roots closer than gap";
            rc.why_unclean = why;
            // rotated daughter between the crossed level and the leaf?
            for (std::size_t L = rc.level; L + 1 < cur.lv.size(); ++L)
            {
                RefUniverse const& u = univ_[cur.lv[L].first];
                int v = cur.lv[L].second;
                int di = u.is_array ? v : u.vols[v].daughter;
                if (di >= 0 && u.daughters[di].rotated)
                    rc.rotated_below = true;
            }
            return rc;
        }
    }
    rc.found = false;
    rc.clean = !dirty;
    return rc;
}

}  // namespace vsim
