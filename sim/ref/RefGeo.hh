// RefGeo: an independent point / ray locator built from OrangeInput.
//
// It shares no algorithm with ORANGE: surfaces are converted (from their
// documented definitions) to general quadric coefficients and evaluated in
// long double; volume membership is an own RPN evaluation; nested universes
// are handled by an own transform chain; crossings along a ray are found by
// collecting *all* roots of *all* surfaces of the universes on the current
// path and locating mid-points between consecutive roots.
#pragma once

#include <cstdint>
#include <string>
#include <utility>
#include <vector>

namespace celeritas
{
struct OrangeInput;
}

namespace vsim
{
using ld = long double;

struct Quadric
{
    // a x^2 + b y^2 + c z^2 + d xy + e yz + f zx + g x + h y + i z + j
    ld a{0}, b{0}, c{0}, d{0}, e{0}, f{0}, g{0}, h{0}, i{0}, j{0};
    bool is_plane{false};
    ld eval(ld const x[3]) const;
    void grad(ld const x[3], ld out[3]) const;
    //! First-order distance from x to the surface
    ld distance_estimate(ld const x[3]) const;
};

struct RefDaughter
{
    int universe{-1};
    ld R[3][3]{{1, 0, 0}, {0, 1, 0}, {0, 0, 1}};  //!< daughter -> parent
    ld t[3]{0, 0, 0};
    bool rotated{false};
};

struct RefVolume
{
    std::vector<int> faces;
    std::vector<std::uint64_t> logic;
    int flags{0};
    bool implicit{false};
    bool background{false};
    int daughter{-1};
    std::string label;
};

struct RefUniverse
{
    bool is_array{false};
    // unit
    std::vector<Quadric> surfs;
    std::vector<RefVolume> vols;
    int background{-1};
    // array
    std::vector<double> grid[3];
    // both
    std::vector<RefDaughter> daughters;
    std::uint32_t vol_offset{0};
    std::uint32_t nvols{0};
};

struct RefPath
{
    std::vector<std::pair<int, int>> lv;  //!< (universe, local volume) per level
    bool valid{false};  //!< exactly one volume matched at every level
    bool outside{false};
    std::uint32_t leaf{0xffffffffu};  //!< global volume id of the deepest level
    int overlaps{0};
    bool operator==(RefPath const& o) const { return valid == o.valid && lv == o.lv; }
    bool operator!=(RefPath const& o) const { return !(*this == o); }
    std::string str() const;
};

struct RefCross
{
    bool found{false};
    bool clean{false};  //!< well separated from other roots, not grazing
    ld dist{0};
    RefPath after;
    int level{-1};  //!< level of the surface that is crossed
    bool rotated_below{false};  //!< a rotated daughter lies between that level and the leaf
    std::string why_unclean;
};

class RefGeo
{
  public:
    explicit RefGeo(celeritas::OrangeInput const& inp);

    bool supported() const { return supported_; }
    std::string const& unsupported_reason() const { return why_; }
    double tol_abs() const { return tol_abs_; }
    double tol_rel() const { return tol_rel_; }
    std::size_t num_universes() const { return univ_.size(); }
    std::uint32_t num_volumes() const { return nvols_; }
    int max_depth() const { return max_depth_; }
    RefUniverse const& universe(int u) const { return univ_[u]; }

    RefPath locate(ld const pos[3]) const;
    //! First-order distance to the nearest surface of any universe on the path
    ld clearance(ld const pos[3], RefPath const& path) const;
    //! Next change of path along a ray starting at pos (which has path `cur`)
    RefCross next_crossing(ld const pos[3], ld const dir[3], RefPath const& cur, ld gap) const;
    //! Shallowest level of `path` that has a surface within `eps` of pos
    //! (-1 if none); *rotated_below = a rotated daughter lies deeper on the path
    int surface_level_at(ld const pos[3], RefPath const& path, ld eps, bool* rotated_below) const;
    //! Number of surfaces (all levels of `path`) within eps of pos
    int surfaces_near(ld const pos[3], RefPath const& path, ld eps) const;
    //! Smallest positive root of any surface on the path (for safety checks)
    ld nearest_root(ld const pos[3], ld const dir[3], RefPath const& cur) const;

  private:
    std::vector<RefUniverse> univ_;
    bool supported_{true};
    std::string why_;
    double tol_abs_{1e-8}, tol_rel_{1e-8};
    std::uint32_t nvols_{0};
    int max_depth_{0};

    struct Root
    {
        ld t;
        int level;
        bool grazing;
    };
    void collect_roots(ld const pos[3], ld const dir[3], RefPath const& cur, std::vector<Root>& out) const;
    int locate_in(int u, ld const x[3], int* overlaps) const;
};

}  // namespace vsim
