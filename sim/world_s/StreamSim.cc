#include "StreamSim.hh"

#include <cstring>
#include <istream>
#include <locale>
#include <ostream>
#include <sstream>
#include <streambuf>
#include <vector>

#include "orange/OrangeInputIO.json.hh"
#include "orange/surf/VariantSurface.hh"
#include "orange/transform/VariantTransform.hh"

#include "core/Rng.hh"

using namespace celeritas;

namespace vsim
{
namespace
{
class ShortBuf : public std::streambuf
{
  public:
    ShortBuf(IoFaults const& io, IoStats* st) : io_(io), st_(st), rng_(io.seed) {}

    std::vector<char> data;

  protected:
    // ---- writing: accept only a few bytes per call ----
    std::streamsize xsputn(char const* s, std::streamsize n) override
    {
        std::streamsize done = 0;
        while (done < n)
        {
            std::streamsize k = 1 + static_cast<std::streamsize>(rng_.below(io_.write_chunk));
            if (k < n - done)
                ++st_->short_writes;
            k = std::min(k, n - done);
            data.insert(data.end(), s + done, s + done + k);
            done += k;
        }
        st_->bytes += n;
        return n;
    }
    int_type overflow(int_type ch) override
    {
        if (ch != traits_type::eof())
        {
            data.push_back(static_cast<char>(ch));
            ++st_->bytes;
        }
        return ch;
    }
    // ---- reading: expose only a few bytes per refill ----
    int_type underflow() override
    {
        if (rpos_ >= data.size())
            return traits_type::eof();
        std::size_t k = 1 + rng_.below(io_.read_chunk);
        if (rpos_ + k < data.size())
            ++st_->short_reads;
        k = std::min(k, data.size() - rpos_);
        setg(data.data() + rpos_, data.data() + rpos_, data.data() + rpos_ + k);
        rpos_ += k;
        return traits_type::to_int_type(*gptr());
    }

  private:
    IoFaults io_;
    IoStats* st_;
    Rng rng_;
    std::size_t rpos_{0};
};

struct CommaPunct : std::numpunct<char>
{
    char do_decimal_point() const override { return ','; }
    char do_thousands_sep() const override { return '.'; }
    std::string do_grouping() const override { return "\3"; }
};

struct LocaleGuard
{
    std::locale old;
    bool active;
    explicit LocaleGuard(bool on) : old(std::locale()), active(on)
    {
        if (on)
            std::locale::global(std::locale(std::locale::classic(), new CommaPunct));
    }
    ~LocaleGuard()
    {
        if (active)
            std::locale::global(old);
    }
};

template<class T>
bool bits_equal(T const& a, T const& b)
{
    return std::memcmp(&a, &b, sizeof(T)) == 0;
}

bool bbox_equal(BBox const& a, BBox const& b)
{
    if (static_cast<bool>(a) != static_cast<bool>(b))
        return false;
    if (!a)
        return true;
    for (int k = 0; k < 3; ++k)
        if (!bits_equal(a.lower()[k], b.lower()[k]) || !bits_equal(a.upper()[k], b.upper()[k]))
            return false;
    return true;
}

bool surface_equal(VariantSurface const& a, VariantSurface const& b)
{
    if (a.index() != b.index())
        return false;
    return std::visit(
        [&b](auto const& sa) {
            using T = std::decay_t<decltype(sa)>;
            auto const& sb = std::get<T>(b);
            auto da = sa.data();
            auto db = sb.data();
            if (da.size() != db.size())
                return false;
            for (std::size_t i = 0; i < da.size(); ++i)
                if (!bits_equal(da[i], db[i]))
                    return false;
            return true;
        },
        a);
}

//! Transform data as 12 reals (rotation row-major + translation); the reader
//! is allowed to normalise an identity transform to "no transformation"
void transform_data(VariantTransform const& t, double out[12])
{
    double id[12] = {1, 0, 0, 0, 1, 0, 0, 0, 1, 0, 0, 0};
    std::memcpy(out, id, sizeof(id));
    std::visit(
        [out](auto const& tr) {
            using T = std::decay_t<decltype(tr)>;
            if constexpr (std::is_same_v<T, Translation>)
            {
                for (int k = 0; k < 3; ++k)
                    out[9 + k] = tr.translation()[k];
            }
            else if constexpr (std::is_same_v<T, Transformation>)
            {
                auto d = tr.data();
                for (int k = 0; k < 12; ++k)
                    out[k] = d[k];
            }
        },
        t);
}

bool daughter_equal(DaughterInput const& a, DaughterInput const& b, bool* type_differs)
{
    if (a.universe_id != b.universe_id)
        return false;
    double da[12], db[12];
    transform_data(a.transform, da);
    transform_data(b.transform, db);
    for (int k = 0; k < 12; ++k)
        if (!bits_equal(da[k], db[k]) && !(da[k] == 0 && db[k] == 0))
            return false;
    if (a.transform.index() != b.transform.index() && type_differs)
        *type_differs = true;
    return true;
}
}  // namespace

//---------------------------------------------------------------------------//
bool roundtrip_through_stream(OrangeInput const& in,
                              IoFaults const& io,
                              OrangeInput* back,
                              IoStats* stats,
                              std::string* why)
{
    LocaleGuard guard(io.comma_locale);
    ShortBuf buf(io, stats);
    try
    {
        std::ostream os(&buf);
        os << in;
        os.flush();
        if (!os)
        {
            *why = "output stream went bad while writing";
            return false;
        }
    }
    catch (std::exception const& e)
    {
        *why = std::string("writing threw: ") + e.what();
        return false;
    }
    try
    {
        std::istream is(&buf);
        is >> *back;
    }
    catch (std::exception const& e)
    {
        std::string head(buf.data.begin(),
                         buf.data.begin() + std::min<std::size_t>(buf.data.size(), 300));
        *why = std::string("reading back threw: ") + e.what() + " | file head: " + head;
        return false;
    }
    return true;
}

//---------------------------------------------------------------------------//
std::string compare_inputs(OrangeInput const& a, OrangeInput const& b)
{
    std::ostringstream os;
    if (a.universes.size() != b.universes.size())
        return "universes: count differs";
    if (!bits_equal(a.tol.rel, b.tol.rel) || !bits_equal(a.tol.abs, b.tol.abs))
    {
        os.precision(17);
        os << "tolerance: " << a.tol.rel << "/" << a.tol.abs << " vs " << b.tol.rel << "/"
           << b.tol.abs;
        return os.str();
    }
    for (std::size_t ui = 0; ui < a.universes.size(); ++ui)
    {
        auto const& ua = a.universes[ui];
        auto const& ub = b.universes[ui];
        std::string U = "universe " + std::to_string(ui);
        if (ua.index() != ub.index())
            return "universe_type: " + U;
        if (auto const* xa = std::get_if<UnitInput>(&ua))
        {
            auto const& xb = std::get<UnitInput>(ub);
            if (xa->label != xb.label)
                return "unit_label: " + U;
            if (xa->surfaces.size() != xb.surfaces.size())
                return "surfaces: count differs in " + U;
            for (std::size_t i = 0; i < xa->surfaces.size(); ++i)
                if (!surface_equal(xa->surfaces[i], xb.surfaces[i]))
                    return "surfaces: surface " + std::to_string(i) + " of " + U;
            if (xa->volumes.size() != xb.volumes.size())
                return "volumes: count differs in " + U;
            for (std::size_t i = 0; i < xa->volumes.size(); ++i)
            {
                auto const& va = xa->volumes[i];
                auto const& vb = xb.volumes[i];
                std::string V = "volume " + std::to_string(i) + " of " + U;
                if (va.faces != vb.faces)
                    return "faces: " + V;
                if (va.logic != vb.logic)
                    return "logic: " + V;
                if (va.flags != vb.flags)
                    return "flags: " + V + " " + std::to_string(va.flags) + " vs "
                           + std::to_string(vb.flags);
                if (va.zorder != vb.zorder)
                    return "zorder: " + V;
                if (!bbox_equal(va.bbox, vb.bbox))
                    return "bbox: " + V;
                if (va.label != vb.label)
                    return "volume_label: " + V + " '" + va.label.name + "@" + va.label.ext
                           + "' vs '" + vb.label.name + "@" + vb.label.ext + "'";
            }
            if (!bbox_equal(xa->bbox, xb.bbox))
                return "unit_bbox: " + U;
            if (xa->daughter_map.size() != xb.daughter_map.size())
                return "daughters: count differs in " + U;
            for (auto const& kv : xa->daughter_map)
            {
                auto it = xb.daughter_map.find(kv.first);
                if (it == xb.daughter_map.end())
                    return "daughters: missing placement in " + U;
                if (!daughter_equal(kv.second, it->second, nullptr))
                    return "daughters: placement of volume " + std::to_string(kv.first.get())
                           + " in " + U;
            }
            if (!xa->surface_labels.empty() && !xb.surface_labels.empty()
                && xa->surface_labels != xb.surface_labels)
                return "surface_labels: " + U;
        }
        else
        {
            auto const& xa2 = std::get<RectArrayInput>(ua);
            auto const& xb2 = std::get<RectArrayInput>(ub);
            if (xa2.label != xb2.label)
                return "array_label: " + U;
            for (int k = 0; k < 3; ++k)
            {
                if (xa2.grid[k].size() != xb2.grid[k].size())
                    return "array_grid: " + U;
                for (std::size_t i = 0; i < xa2.grid[k].size(); ++i)
                    if (!bits_equal(xa2.grid[k][i], xb2.grid[k][i]))
                        return "array_grid: " + U;
            }
            if (xa2.daughters.size() != xb2.daughters.size())
                return "array_daughters: count in " + U;
            for (std::size_t i = 0; i < xa2.daughters.size(); ++i)
                if (!daughter_equal(xa2.daughters[i], xb2.daughters[i], nullptr))
                    return "array_daughters: cell " + std::to_string(i) + " of " + U;
        }
    }
    return {};
}

}  // namespace vsim
