// World S: the simulated stream layer for the ORANGE JSON reader/writer.
// A std::streambuf over a byte vector that accepts / exposes only a few
// bytes per call (every legal short write / short read), and an optional
// global locale with a comma decimal point.
#pragma once

#include <string>

#include "orange/OrangeInput.hh"

namespace vsim
{
struct IoFaults
{
    int write_chunk{7};  //!< max bytes accepted per xsputn/overflow round
    int read_chunk{5};  //!< max bytes exposed per underflow
    unsigned long long seed{1};
    bool comma_locale{false};
};

struct IoStats
{
    long short_writes{0}, short_reads{0}, bytes{0};
};

//! Write `in` to the simulated file and read it back
bool roundtrip_through_stream(celeritas::OrangeInput const& in,
                              IoFaults const& io,
                              celeritas::OrangeInput* back,
                              IoStats* stats,
                              std::string* why);

//! Structural comparison; empty string if equal, else "field: detail"
std::string compare_inputs(celeritas::OrangeInput const& a, celeritas::OrangeInput const& b);
}  // namespace vsim
